#!/bin/bash
# seedeval.sh <property> <k> <demo package dir (relative to repo root)> [checks to run, default: the property]
# Confirms a seeded change in a scratch worktree (patch applies, existing tests of the package pass,
# demo fails with it and passes without) and runs the registered checks against it.
set -u
P=$1; K=$2; PKG=$3; CHECKS=${4:-$P}
. /verif/env.sh
SRC=${SEEDDIR:-/tmp/seed}/$P.out/$K
MUT=/tmp/mut_${P}_${K}
rm -rf $MUT; git -C /repo worktree prune; git -C /repo worktree add -q --detach $MUT HEAD || exit 2
cd $MUT
demo=$(ls $SRC/*_test.go | head -1)
cp $demo $MUT/$PKG/zz_seed_demo_test.go
echo "== demo on clean tree"; (cd $MUT/$PKG && go test -count=1 -run 'Seed|Demo|C[0-9][0-9]' . 2>&1 | tail -3)
git apply $SRC/patch.diff || { echo "PATCH DOES NOT APPLY"; exit 2; }
echo "== demo with patch"; (cd $MUT/$PKG && go test -count=1 -run 'Seed|Demo|C[0-9][0-9]' . 2>&1 | tail -3)
rm $MUT/$PKG/zz_seed_demo_test.go
echo "== existing tests with patch"; files=$(git diff --name-only | xargs -n1 dirname | sort -u); for d in $files; do (cd $MUT/$d && go test -count=1 . 2>&1 | tail -1); done
for c in $CHECKS; do echo "== check $c against the patched tree"; (cd ${VERIF_ROOT:-/verif} && VERIF_REPO=$MUT ./check $c 2>&1 | grep -v "^  harness\|VIOLATION-CLASS\|^loaded\|^H[0-9A-Za-z]*:" | cut -c1-260 | tail -6; echo "exit=${PIPESTATUS[0]}"); done
cd /; git -C /repo worktree remove --force $MUT
