"""Per-property check configuration: which harnesses run in which package, with which bounds."""

CHECKS = {
    "BRINGUP": {
        "runs": [
            {"pkg": "./pkg/strvals", "files": ["pkg/strvals/h_bringup.go"], "entries": ["HBringupConcrete", "HBringupSym", "HBringupBad"]},
        ],
        "bounds": {"strings": "k,v: 1..2 symbolic bytes a-z"},
        "assumptions": ["bring-up only"],
    },
}
