"""Per-property check configuration: which harnesses run in which package, with which bounds."""

STRVALS = {"pkg": "./pkg/strvals", "files": ["pkg/strvals/h_c04_set.go"]}

STORAGE = {"pkg": "./pkg/storage", "files": ["pkg/storage/h_common.go", "pkg/storage/h_c10_mem.go", "pkg/storage/h_c01_prune.go", "pkg/storage/h_c10_helpers.go"]}

LOADER = {"pkg": "./pkg/chart/v2/loader", "files": ["pkg/chart/v2/loader/h_c16_names.go"]}

RELUTIL = {"pkg": "./pkg/release/util", "files": ["pkg/release/util/h_c08_part.go", "pkg/release/util/h_c08_splitorder.go", "pkg/release/util/h_c08_stable.go"]}

REPOPKG = {"pkg": "./pkg/repo", "files": ["pkg/repo/h_c18_index.go"]}

ACTION = {"pkg": "./pkg/action", "files": ["pkg/action/h_common.go", "pkg/action/h_smoke.go", "pkg/action/h_c01_hist.go", "pkg/action/h_c06_dryrun.go", "pkg/action/h_c12_hooks.go", "pkg/action/h_c07_own.go", "pkg/action/h_c14_schema.go", "pkg/action/h_tree.go", "pkg/action/h_c13_reuse.go", "pkg/action/h_c13_deployed.go", "pkg/action/h_c13_chain.go", "pkg/action/h_c05_order.go", "pkg/action/h_c09_conc.go", "pkg/action/h_c02_uninstall.go", "pkg/action/h_c02_hist.go"]}

CHARTUTIL = {"pkg": "./pkg/chart/v2/util", "files": ["pkg/chart/v2/util/h_values.go"]}

CHECKS = {
    "C11": {
        "runs": [dict(pkg="./pkg/chart/v2/util", files=["pkg/chart/v2/util/h_c11_enabled.go", "pkg/chart/v2/util/h_c11_deep.go", "pkg/chart/v2/util/h_c11_twice.go", "pkg/chart/v2/util/h_c11_path.go"], entries=["H11Enabled", "H11Alias", "H11Deep", "H11Twice", "H11Path"], bounds_quick={"minor": 4}, bounds_thorough={"minor": 5}),
                 dict(CHARTUTIL, entries=["H11Scope"], bounds_quick={"depth": 2, "slim": 1, "pdepth": 0}, bounds_thorough={"depth": 2, "slim": 1, "pdepth": 1})],
        "bounds": {}, "assumptions": [],
    },
    "ACTIONSMOKE": {"runs": [dict(ACTION, entries=["HSmoke"])], "bounds": {}, "assumptions": []},
    "C17": {
        "runs": [dict(pkg="./pkg/provenance", files=["pkg/provenance/h_c17_verify.go"], entries=["H17Verify"], bounds_quick={"entries": 2}, bounds_thorough={"entries": 3}),
                 dict(pkg="./pkg/downloader", files=["pkg/downloader/h_c19_resolve.go"], entries=["H19Download"], limits={"max_instrs": 20000000, "max_decisions": 3000},
                      optional_sites=["creds/only-to-repository-origin", "creds/only-when-configured", "creds/sent-to-own-repository"]),
                 dict(pkg="./pkg/action", files=["pkg/action/h_c19_locate.go"], entries=["H19Locate"], limits={"max_instrs": 20000000, "max_decisions": 3000},
                      optional_sites=["locate/creds-only-to-repository-origin", "locate/creds-only-when-configured", "locate/index-request-carries-credentials"])],
        "bounds": {}, "assumptions": [],
    },
    "C18": {
        "runs": [dict(REPOPKG, entries=["H18Index"], bounds_quick={"entries": 2, "shapes": 8, "maxdigit": 3}, bounds_thorough={"entries": 2, "shapes": 8, "maxdigit": 9}),
                 dict(pkg="./internal/resolver", files=["internal/resolver/h_c18_resolve.go"], entries=["H18Resolve"], bounds_quick={"entries": 2, "maxdigit": 3}, bounds_thorough={"entries": 3, "maxdigit": 9})],
        "bounds": {}, "assumptions": [],
    },
    "C08": {
        "runs": [dict(RELUTIL, entries=["H08Partition", "H08Order", "H08SplitOrder", "H08Stable"], bounds_quick={"files": 1, "docs": 2, "kinds": 5, "odocs": 3, "docindex": 9999, "stablelen": 13, "stablekinds": 2}, bounds_thorough={"files": 1, "docs": 3, "kinds": 7, "odocs": 4, "docindex": 99999, "stablelen": 16, "stablekinds": 2},
                      optional_sites=["partition/partials-never-applied"]),
                 dict(pkg="./pkg/kube", files=["pkg/kube/h_c02_update.go", "pkg/kube/h_c08_barrier.go"], entries=["H08Barrier"], bounds_quick={"objects": 3}, bounds_thorough={"objects": 4})],
        "bounds": {}, "assumptions": [],
    },
    "C15": {
        "runs": [dict(pkg="./pkg/chart/v2/util", files=["pkg/chart/v2/util/h_c15_roundtrip.go"], entries=["H15RoundTrip", "H15Name", "H15Tree"], bounds_quick={"bodylen": 3, "namelen": 1}, bounds_thorough={"bodylen": 4, "namelen": 2}),
                 dict(pkg="./pkg/ignore", files=["pkg/ignore/h_c15_ignore.go"], entries=["H15Ignore", "H15IgnoreFile"], bounds_quick={"linelen": 3, "pathlen": 3}, bounds_thorough={"linelen": 4, "pathlen": 4}),
                 dict(pkg="./pkg/chart/v2/loader", files=["pkg/chart/v2/loader/h_c15_dir.go"], entries=["H15Dir", "H15DirBytes"], bounds_quick={"linelen": 3, "taillen": 1}, bounds_thorough={"linelen": 4, "taillen": 1}, limits={"max_decisions": 4000})],
        "bounds": {}, "assumptions": [],
    },
    "C16": {
        "runs": [dict(LOADER, entries=["H16Names", "H16Size"], bounds_quick={"namelen": 6, "maxsize": 40, "entries": 2}, bounds_thorough={"namelen": 8, "maxsize": 40, "entries": 3},
                      optional_sites=["size/requested-within-remaining-budget"]),
                 dict(pkg="./pkg/plugin/installer", files=["pkg/plugin/installer/h_c16_cleanjoin.go"], entries=["H16CleanJoin"],
                      bounds_quick={"destlen": 5}, bounds_thorough={"destlen": 7}),
                 dict(pkg="./pkg/plugin/installer", files=["pkg/plugin/installer/h_c16_cleanjoin.go", "pkg/plugin/installer/h_c16_extract.go"], entries=["H16Extract"],
                      bounds_quick={"xentries": 2, "xnamelen": 3}, bounds_thorough={"xentries": 1, "xnamelen": 6}),
                 dict(pkg="./pkg/chart/v2/util", files=["pkg/chart/v2/util/h_c16_expand.go"], entries=["H16Expand"],
                      bounds_quick={"xpnamelen": 4, "xpfilelen": 3}, bounds_thorough={"xpnamelen": 6, "xpfilelen": 4}),
                 dict(pkg="./pkg/downloader", files=["pkg/downloader/h_c16_lock.go"], entries=["H16Lock"])],
        "bounds": {}, "assumptions": [],
    },
    # engine self-test (setup_cmd): a harness with a deliberately false assertion must yield a
    # solver counterexample that reproduces natively; sampled paths must agree with native runs
    "SELFTEST": {
        "runs": [{"pkg": "./pkg/strvals", "files": ["pkg/strvals/h_bringup.go"], "entries": ["HBringupConcrete", "HBringupSym", "HBringupBad"]}],
        "bounds": {}, "assumptions": ["self-test only"],
    },
    "C01": {
        "runs": [dict(STORAGE, entries=["H01Prune"], bounds_quick={"recs": 3, "maxver": 97, "maxhist": 4, "nstatus": 4}, bounds_thorough={"recs": 3, "maxver": 997, "maxhist": 6, "nstatus": 5}),
                 dict(ACTION, entries=["H01Hist", "H01Crash", "H01Kept"], bounds_quick={"depth": 2, "faults": 1, "crashes": 0, "maxhist": 2}, bounds_thorough={"depth": 2, "faults": 1, "crashes": 0, "maxhist": 3},
                      limits={"max_instrs": 20000000, "max_decisions": 2000}),
                 dict(ACTION, entries=["H01Hist"], tiers=["thorough"], bounds_thorough={"depth": 3, "faults": 0, "crashes": 0, "maxhist": 2, "slimflags": 1},
                      limits={"max_instrs": 30000000, "max_decisions": 3000})],
        "bounds": {}, "assumptions": [],
    },
    "C02": {
        "runs": [dict(pkg="./pkg/kube", files=["pkg/kube/h_c02_update.go"], entries=["H02Update", "H02Delete"], bounds_quick={"objects": 2, "spaces": 2}, bounds_thorough={"objects": 3, "spaces": 1}),
                 dict(ACTION, entries=["H02Uninstall", "H02Hist", "H02Install"], bounds_quick={"docs": 2}, bounds_thorough={"docs": 3}, limits={"max_instrs": 20000000, "max_decisions": 2000})],
        "bounds": {}, "assumptions": [],
    },
    "C03": {
        "runs": [dict(ACTION, entries=["H03Hist", "H03AtomicAfterFailed"], bounds_quick={"depth": 2, "faults": 1, "crashes": 0, "maxhist": 1}, bounds_thorough={"depth": 2, "faults": 1, "crashes": 0, "maxhist": 3},
                      limits={"max_instrs": 20000000, "max_decisions": 2000})],
        "bounds": {}, "assumptions": [],
    },
    "C05": {
        "runs": [dict(ACTION, entries=["H05Order"], limits={"max_instrs": 20000000, "max_decisions": 2000}),
                 dict(RELUTIL, entries=["H08SplitOrder"], bounds_quick={"docindex": 9999}, bounds_thorough={"docindex": 99999}),
                 dict(pkg="./pkg/engine", files=["pkg/engine/h_c05_hermetic.go"], entries=["H05Hermetic", "H05Files", "H05Glob"], bounds_quick={"fnamelen": 3, "globlen": 3}, bounds_thorough={"fnamelen": 5, "globlen": 4}),
                 dict(pkg="./pkg/engine", files=["pkg/engine/h_c05_renderorder.go"], entries=["H05RenderOrder"])],
        "bounds": {}, "assumptions": [],
    },
    "C06": {
        "runs": [dict(ACTION, entries=["H06DryRun"], limits={"max_instrs": 20000000, "max_decisions": 2000})],
        "bounds": {}, "assumptions": [],
    },
    "C12": {
        "runs": [dict(ACTION, entries=["H12Exec", "H12Gate"], bounds_quick={"hooks": 2, "faults": 1}, bounds_thorough={"hooks": 3, "faults": 1}, limits={"max_instrs": 20000000, "max_decisions": 2000}),
                 dict(pkg="./pkg/release/util", files=["pkg/release/util/h_c12_weight.go", "pkg/release/util/h_c08_part.go"], entries=["H12Weight", "H12Policies"], bounds_quick={"maxweight": 9999, "policies": 3}, bounds_thorough={"maxweight": 99999, "policies": 3})],
        "bounds": {}, "assumptions": [],
    },
    "C07": {
        "runs": [dict(ACTION, entries=["H07Own", "H07Gate", "H07GateNamespace"], limits={"max_instrs": 20000000, "max_decisions": 2000})],
        "bounds": {}, "assumptions": [],
    },
    "C13": {
        "runs": [dict(ACTION, entries=["H13Reuse", "H13Rollback", "H13Deployed", "H13Chain"], bounds_quick={"depth": 1, "slim": 1, "defdepth": 0, "chainsteps": 2}, bounds_thorough={"depth": 2, "slim": 1, "defdepth": 0, "chainsteps": 3}, limits={"max_instrs": 20000000, "max_decisions": 2000})],
        "bounds": {}, "assumptions": [],
    },
    "C14": {
        "runs": [dict(pkg="./pkg/lint/rules", files=["pkg/lint/rules/h_c14_lint.go"], entries=["H14Lint"]),
                 dict(ACTION, entries=["H14Gate", "H14Deep", "H14Alias"], limits={"max_instrs": 20000000, "max_decisions": 2000})],
        "bounds": {}, "assumptions": [],
    },
    "C09": {
        "runs": [dict(ACTION, entries=["H09Concurrent"], bounds_quick={"preemptions": 3, "maxhist": 1}, bounds_thorough={"preemptions": 4, "maxhist": 2}, limits={"max_instrs": 20000000, "max_decisions": 2000}),
                 dict(pkg="./pkg/storage/driver", files=["pkg/storage/driver/h_c09_race.go"], entries=["H09Race"], race=True)],
        "bounds": {}, "assumptions": [],
    },
    "C10": {
        "runs": [dict(STORAGE, entries=["H10MemStep", "H10Helpers"], bounds_quick={"recs": 2, "namelen": 3, "maxver": 9, "hrevs": 3}, bounds_thorough={"recs": 2, "namelen": 3, "maxver": 99, "hrevs": 4}),
                 dict(pkg="./pkg/storage/driver", files=["pkg/storage/driver/h_c10_key.go"], entries=["H10Key"], bounds_quick={"keynamelen": 5}, bounds_thorough={"keynamelen": 6}),
                 dict(pkg="./pkg/storage/driver", files=["pkg/storage/driver/h_c10_backends.go"], entries=["H10Backends", "H10ReadModifyWrite"],
                      bounds_quick={"recs": 1, "maxver": 2, "labels": 4}, bounds_thorough={"recs": 2, "maxver": 2, "labels": 2})],
        "bounds": {}, "assumptions": [],
    },
    "C04": {
        "runs": [
            dict(STRVALS, entries=["H04SetScalar", "H04SetTyped", "H04SetNumeric", "H04SetEscapes", "H04SetList", "H04SetLiteral", "H04SetFrame"],
                 bounds_quick={"maxlen": 5, "numlen": 4}, bounds_thorough={"maxlen": 6, "numlen": 5}),
            dict(pkg="./pkg/cli/values", files=["pkg/cli/values/h_c04_flags.go"], entries=["H04Flags"], bounds_quick={"sources": 8, "modes": 3}, bounds_thorough={"sources": 8, "modes": 4}, optional_sites=["flags/m.b/highest-precedence-source"]),
            dict(CHARTUTIL, entries=["H04Coalesce"], bounds_quick={"depth": 2, "slim": 1, "lists": 1}, bounds_thorough={"depth": 2, "slim": 0, "lists": 1}),
            dict(CHARTUTIL, entries=["H11Scope"], bounds_quick={"depth": 2, "slim": 1, "pdepth": 0, "lists": 0}, bounds_thorough={"depth": 2, "slim": 1, "pdepth": 0, "lists": 1}),
        ],
        "bounds": {"quick": "atoms 1-4 symbolic bytes a-z; list index 0-3; arbitrary-input frame harness: 0-5 symbolic bytes over the 15-symbol alphabet -ay01=,.[]{}\\ and space",
                   "thorough": "same, frame harness 0-7 bytes"},
        "assumptions": ["symbolic bytes restricted to ASCII alphabets stated per harness"],
    },
    "C19": {
        "runs": [dict(pkg="./pkg/getter", files=["pkg/getter/h_c19_get.go"], entries=["H19Get"], bounds_quick={"hostlen": 1}, bounds_thorough={"hostlen": 2}, optional_sites=["rejected/no-request-sent"],
                      limits={"max_instrs": 20000000, "max_decisions": 3000}),
                 dict(pkg="./pkg/downloader", files=["pkg/downloader/h_c19_resolve.go"], entries=["H19Download"], limits={"max_instrs": 20000000, "max_decisions": 3000},
                      optional_sites=["verify/never-does-not-fetch-provenance", "verify/always-fails-without-valid-provenance", "verify/if-possible-fails-on-invalid-provenance", "verify/later-fetches-but-does-not-check"]),
                 dict(pkg="./pkg/downloader", files=["pkg/downloader/h_c19_resolve.go", "pkg/downloader/h_c19_deps.go"], entries=["H19Deps"], limits={"max_instrs": 20000000, "max_decisions": 3000}),
                 dict(pkg="./pkg/action", files=["pkg/action/h_c19_locate.go"], entries=["H19Locate"], limits={"max_instrs": 20000000, "max_decisions": 3000}),
                 dict(pkg="./pkg/getter", files=["pkg/getter/h_c19_redirect.go"], entries=["H19Redirect"], limits={"max_instrs": 20000000, "max_decisions": 3000})],
        "bounds": {}, "assumptions": [],
    },
    "C20": {
        "runs": [
            dict(STRVALS, entries=["H04SetFrame", "H20SetTypeConfusion", "H20SetDeep"], bounds_quick={"maxlen": 5, "deeplen": 3}, bounds_thorough={"maxlen": 6, "deeplen": 4}),
            dict(REPOPKG, entries=["H18Index"], bounds_quick={"entries": 2, "shapes": 8, "maxdigit": 3}, bounds_thorough={"entries": 2, "shapes": 8, "maxdigit": 9}),
            dict(pkg="./pkg/storage/driver", files=["pkg/storage/driver/h_c10_backends.go"], entries=["H20Corrupt"]),
            dict(pkg="./pkg/chart/v2/util", files=["pkg/chart/v2/util/h_c20_import.go", "pkg/chart/v2/util/h_c20_deps.go"], entries=["H20Import", "H20Deps"], bounds_quick={"entries": 1, "depentries": 2}, bounds_thorough={"entries": 2, "depentries": 2}),
            dict(pkg="./pkg/storage/driver", files=["pkg/storage/driver/h_c20_decode.go"], entries=["H20Decode"], bounds_quick={"payload": 5}, bounds_thorough={"payload": 7}),
            dict(pkg="./pkg/ignore", files=["pkg/ignore/h_c15_ignore.go"], entries=["H15Ignore"], bounds_quick={"linelen": 3, "pathlen": 2}, bounds_thorough={"linelen": 4, "pathlen": 3}),
            dict(pkg="./pkg/chart/v2/loader", files=["pkg/chart/v2/loader/h_c20_loadfiles.go"], entries=["H20LoadFiles"], bounds_quick={"lfnamelen": 4}, bounds_thorough={"lfnamelen": 6}),
        ],
        "bounds": {},
        "assumptions": [],
    },
}
