# sourced by every script: offline Go toolchain matching /repo's go.mod (go 1.24.0)
export PATH=/root/go/pkg/mod/golang.org/toolchain@v0.0.1-go1.24.0.linux-amd64/bin:$PATH
export GOTOOLCHAIN=local GOFLAGS=-mod=mod GOPROXY=off GOSUMDB=off CGO_ENABLED=0
