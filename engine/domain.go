package main

// Unary-domain pre-solver. Many branch conditions in byte-level parsers mention
// a single small symbolic variable (one input byte, one boolean). For a
// variable that occurs only in single-variable path-condition conjuncts, the
// set of values satisfying those conjuncts (its domain, at most 256 values) is
// exact and independent of every other variable, so feasibility of a
// single-variable condition is decided by evaluating the term on the domain —
// a complete decision procedure for that fragment. Anything else (two or more
// variables, wide variables, entangled variables) goes to the SMT solver, and
// assertions always do.

type domain struct {
	ok        [256]bool
	n         int
	entangled bool
}

func (ps *pathState) domOf(v *Term) *domain {
	if d, ok := ps.doms[v]; ok {
		return d
	}
	if v.w > 8 {
		return nil
	}
	d := &domain{}
	lim := 256
	if v.w == 0 {
		lim = 2
	} else if v.w < 8 {
		lim = 1 << uint(v.w)
	}
	for k := 0; k < lim; k++ {
		d.ok[k] = true
	}
	d.n = lim
	ps.doms[v] = d
	return d
}

// singleVar returns the only variable of t, or nil if t has none or several
// (or more than maxNodes nodes).
func singleVar(t *Term) *Term {
	var found *Term
	multi := false
	seen := map[*Term]bool{}
	var walk func(t *Term)
	walk = func(t *Term) {
		if multi || seen[t] {
			return
		}
		seen[t] = true
		if len(seen) > 4000 {
			multi = true
			return
		}
		if t.op == "v" {
			if found == nil {
				found = t
			} else if found != t {
				multi = true
			}
			return
		}
		for _, a := range t.args {
			walk(a)
		}
	}
	walk(t)
	if multi {
		return nil
	}
	return found
}

func varsOf(t *Term, out map[*Term]bool) {
	seen := map[*Term]bool{}
	var walk func(t *Term)
	walk = func(t *Term) {
		if seen[t] {
			return
		}
		seen[t] = true
		if t.op == "v" {
			out[t] = true
			return
		}
		for _, a := range t.args {
			walk(a)
		}
	}
	walk(t)
}

// evalTerm evaluates t with variable v bound to x.
func evalTerm(t *Term, v *Term, x uint64, memo map[*Term]uint64) uint64 {
	if t.op == "c" {
		return t.val
	}
	if t == v {
		return x
	}
	if r, ok := memo[t]; ok {
		return r
	}
	a := func(k int) uint64 { return evalTerm(t.args[k], v, x, memo) }
	var r uint64
	b2u := func(b bool) uint64 {
		if b {
			return 1
		}
		return 0
	}
	switch t.op {
	case "not":
		r = 1 - a(0)
	case "and":
		r = a(0) & a(1)
	case "or":
		r = a(0) | a(1)
	case "ite":
		if a(0) == 1 {
			r = a(1)
		} else {
			r = a(2)
		}
	case "=":
		r = b2u(a(0) == a(1))
	case "bvult":
		r = b2u(a(0) < a(1))
	case "bvule":
		r = b2u(a(0) <= a(1))
	case "bvslt":
		r = b2u(sext64(a(0), t.args[0].w) < sext64(a(1), t.args[1].w))
	case "bvsle":
		r = b2u(sext64(a(0), t.args[0].w) <= sext64(a(1), t.args[1].w))
	case "bvneg":
		r = (-a(0)) & mask(t.w)
	case "bvnot":
		r = (^a(0)) & mask(t.w)
	case "extract":
		r = (a(0) >> uint(t.p2)) & mask(t.w)
	case "zext":
		r = a(0)
	case "sext":
		r = uint64(sext64(a(0), t.args[0].w)) & mask(t.w)
	default:
		// binary bit-vector operators: reuse the constant folder
		tt := scratchTT
		c := tt.bvbin(t.op, &Term{op: "c", w: t.args[0].w, val: a(0)}, &Term{op: "c", w: t.args[1].w, val: a(1)})
		r = c.val
	}
	memo[t] = r
	return r
}

var scratchTT = &termTable{intern: nil}

// domainDecide: for a single-variable condition over an unentangled small
// variable, returns whether cond can be true / can be false under PC.
func (ps *pathState) domainDecide(cond *Term) (canT, canF, decided bool) {
	v := singleVar(cond)
	if v == nil {
		return false, false, false
	}
	d := ps.domOf(v)
	if d == nil || d.entangled {
		return false, false, false
	}
	for x := 0; x < 256; x++ {
		if !d.ok[x] {
			continue
		}
		if evalTerm(cond, v, uint64(x), map[*Term]uint64{}) == 1 {
			canT = true
		} else {
			canF = true
		}
		if canT && canF {
			break
		}
	}
	ps.domainDecisions++
	return canT, canF, true
}

// domainAssume records a new path-condition conjunct in the domains.
func (ps *pathState) domainAssume(c *Term) {
	v := singleVar(c)
	if v != nil {
		if d := ps.domOf(v); d != nil {
			if d.entangled {
				return
			}
			for x := 0; x < 256; x++ {
				if d.ok[x] && evalTerm(c, v, uint64(x), map[*Term]uint64{}) != 1 {
					d.ok[x] = false
					d.n--
				}
			}
			return
		}
		return
	}
	vs := map[*Term]bool{}
	varsOf(c, vs)
	for v := range vs {
		if d := ps.domOf(v); d != nil {
			d.entangled = true
		}
	}
}
