package main

// Insertion-ordered map with support for keys that contain symbolic cells.
// Iteration order is insertion order (deterministic, which re-execution needs),
// or a symbolic permutation when the harness has switched ndMapOrder on.

import (
	"go/types"
)

type oentry struct {
	key     value
	val     value
	hash    int
	sym     bool // key contains symbolic cells
	deleted bool
}

type omap struct {
	keyT    types.Type
	entries []*oentry
	index   map[int][]*oentry // concrete-key entries by hash
	nsym    int
	n       int
}

func newOmap(kt types.Type) *omap {
	return &omap{keyT: kt, index: map[int][]*oentry{}}
}

func (m *omap) len() int {
	if m == nil {
		return 0
	}
	return m.n
}

func containsSym(v value) bool {
	switch v := v.(type) {
	case symB, symI, symS:
		return true
	case structure:
		for _, e := range v {
			if containsSym(e) {
				return true
			}
		}
	case array:
		for _, e := range v {
			if containsSym(e) {
				return true
			}
		}
	case iface:
		return containsSym(v.v)
	}
	return false
}

func (i *interpreter) checkHashable(t types.Type, k value) {
	if itf, ok := k.(iface); ok && itf.t != nil && !types.Comparable(itf.t) {
		panic(targetPanic{iface{i.runtimeErrorString, "runtime error: hash of unhashable type " + itf.t.String()}})
	}
}

// find returns the entry matching k, forking on symbolic key equality.
func (m *omap) find(i *interpreter, k value) *oentry {
	if m == nil {
		return nil
	}
	i.checkHashable(m.keyT, k)
	ksym := containsSym(k)
	if !ksym {
		h := hash(m.keyT, m.keyT, k)
		for _, e := range m.index[h] {
			if !e.deleted && equalsConcrete(i, m.keyT, k, e.key) {
				return e
			}
		}
		if m.nsym == 0 {
			return nil
		}
		for _, e := range m.entries {
			if e.deleted || !e.sym {
				continue
			}
			if i.ps.branch(i.equalsT(m.keyT, k, e.key)) {
				return e
			}
		}
		return nil
	}
	for _, e := range m.entries {
		if e.deleted {
			continue
		}
		if i.ps.branch(i.equalsT(m.keyT, k, e.key)) {
			return e
		}
	}
	return nil
}

func equalsConcrete(i *interpreter, t types.Type, x, y value) bool {
	r := i.equalsT(t, x, y)
	if !r.isConst() {
		panic(engErr("equalsConcrete: symbolic result"))
	}
	return r.val == 1
}

func (m *omap) lookup(i *interpreter, k value) (value, bool) {
	e := m.find(i, k)
	if e == nil {
		return nil, false
	}
	return e.val, true
}

func (m *omap) insert(i *interpreter, k, v value) {
	if e := m.find(i, k); e != nil {
		e.val = v
		return
	}
	e := &oentry{key: k, val: v, sym: containsSym(k)}
	if e.sym {
		m.nsym++
	} else {
		e.hash = hash(m.keyT, m.keyT, k)
		m.index[e.hash] = append(m.index[e.hash], e)
	}
	m.entries = append(m.entries, e)
	m.n++
}

func (m *omap) delete(i *interpreter, k value) {
	if m == nil {
		return
	}
	e := m.find(i, k)
	if e == nil {
		return
	}
	m.remove(e)
}

func (m *omap) remove(e *oentry) {
	e.deleted = true
	m.n--
	if e.sym {
		m.nsym--
	} else {
		l := m.index[e.hash]
		for k := range l {
			if l[k] == e {
				m.index[e.hash] = append(l[:k:k], l[k+1:]...)
				break
			}
		}
	}
	for k := range m.entries {
		if m.entries[k] == e {
			m.entries = append(m.entries[:k:k], m.entries[k+1:]...)
			break
		}
	}
}

func (m *omap) clear() {
	if m == nil {
		return
	}
	for _, e := range m.entries {
		e.deleted = true
	}
	m.entries = nil
	m.index = map[int][]*oentry{}
	m.nsym, m.n = 0, 0
}

type omapIter struct {
	snap []*oentry
	pos  int
}

func (it *omapIter) next() tuple {
	for it.pos < len(it.snap) {
		e := it.snap[it.pos]
		it.pos++
		if !e.deleted {
			return tuple{true, e.key, e.val}
		}
	}
	return tuple{false, nil, nil}
}

func (m *omap) iter(i *interpreter) iter {
	if m == nil {
		return &omapIter{}
	}
	snap := make([]*oentry, len(m.entries))
	copy(snap, m.entries)
	if i.ps.mapOrderSym && len(snap) > 1 {
		// symbolic iteration order: insertion order or its reverse (one decision
		// per range; a full symbolic permutation is n! paths per range)
		if i.ps.branch(i.ps.freshBool("maporder")) {
			for a, b := 0, len(snap)-1; a < b; a, b = a+1, b-1 {
				snap[a], snap[b] = snap[b], snap[a]
			}
		}
	}
	return &omapIter{snap: snap}
}

// keys returns live keys in order (helpers for intrinsics).
func (m *omap) live() []*oentry {
	if m == nil {
		return nil
	}
	return m.entries
}
