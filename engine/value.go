// Copyright 2013 The Go Authors. All rights reserved.
// Use of this source code is governed by a BSD-style
// license that can be found in the LICENSE file.

package main

// Values
//
// All interpreter values are "boxed" in the empty interface, value.
// The range of possible dynamic types within value are:
//
// - bool
// - numbers (all built-in int/float/complex types are distinguished)
// - string
// - map[value]value --- maps for which  usesBuiltinMap(keyType)
//   *hashmap        --- maps for which !usesBuiltinMap(keyType)
// - chan value
// - []value --- slices
// - iface --- interfaces.
// - structure --- structs.  Fields are ordered and accessed by numeric indices.
// - array --- arrays.
// - *value --- pointers.  Careful: *value is a distinct type from *array etc.
// - *ssa.Function \
//   *ssa.Builtin   } --- functions.  A nil 'func' is always of type *ssa.Function.
//   *closure      /
// - tuple --- as returned by Return, Next, "value,ok" modes, etc.
// - iter --- iterators from 'range' over map or string.
// - bad --- a poison pill for locals that have gone out of scope.
// - rtype -- the interpreter's concrete implementation of reflect.Type
// - **deferred -- the address of a frame's defer stack for a Defer._Stack.
//
// Note that nil is not on this list.
//
// Pay close attention to whether or not the dynamic type is a pointer.
// The compiler cannot help you since value is an empty interface.

import (
	"bytes"
	"fmt"
	"go/types"
	"unsafe"

	"golang.org/x/tools/go/ssa"
	"golang.org/x/tools/go/types/typeutil"
)

type value interface{}

type tuple []value

type array []value

type iface struct {
	t types.Type // never an "untyped" type
	v value
}

type structure []value

// For map, array, *array, slice, string or channel.
type iter interface {
	// next returns a Tuple (key, value, ok).
	// key and value are unaliased, e.g. copies of the sequence element.
	next() tuple
}

type closure struct {
	Fn  *ssa.Function
	Env []value
}

type bad struct{}

type rtype struct {
	t types.Type
}

// Hash functions (concrete keys only; symbolic keys are never hashed).

func hashString(s string) int {
	var h uint32
	for i := 0; i < len(s); i++ {
		h ^= uint32(s[i])
		h *= 16777619
	}
	return int(h)
}

var hasher = typeutil.MakeHasher()

func hashType(t types.Type) int {
	return int(hasher.Hash(t))
}

// nil-tolerant variant of types.Identical.
func sameType(x, y types.Type) bool {
	if x == nil {
		return y == nil
	}
	return y != nil && types.Identical(x, y)
}

// Returns an integer hash of x such that equals(x, y) => hash(x) == hash(y).
func hash(outer, t types.Type, x value) int {
	switch x := x.(type) {
	case bool:
		if x {
			return 1
		}
		return 0
	case int:
		return x
	case int8:
		return int(x)
	case int16:
		return int(x)
	case int32:
		return int(x)
	case int64:
		return int(x)
	case uint:
		return int(x)
	case uint8:
		return int(x)
	case uint16:
		return int(x)
	case uint32:
		return int(x)
	case uint64:
		return int(x)
	case uintptr:
		return int(x)
	case float32:
		return int(x)
	case float64:
		return int(x)
	case complex64:
		return int(real(x))
	case complex128:
		return int(real(x))
	case string:
		return hashString(x)
	case *value:
		return int(uintptr(unsafe.Pointer(x)))
	case *echan:
		return int(uintptr(unsafe.Pointer(x)))
	case *nativeObj:
		return int(uintptr(unsafe.Pointer(x)))
	case structure:
		h := 0
		for _, e := range x {
			h = h*31 + hash(outer, nil, e)
		}
		return h
	case array:
		h := 0
		for _, e := range x {
			h = h*31 + hash(outer, nil, e)
		}
		return h
	case iface:
		if x.t == nil {
			return 0
		}
		return hashType(x.t)*8581 + hash(outer, x.t, x.v)
	case rtype:
		return hashType(x.t)
	}
	panic(engErr("unhashable type %v (%T)", outer, x))
}

// reflect.Value struct values don't have a fixed shape, since the
// payload can be a scalar or an aggregate depending on the instance.
// So store (and load) can't simply use recursion over the shape of the
// rhs value, or the lhs, to copy the value; we need the static type
// information.  (We can't make reflect.Value a new basic data type
// because its "structness" is exposed to Go programs.)

// load returns the value of type T in *addr.
func load(T types.Type, addr *value) value {
	switch T := T.Underlying().(type) {
	case *types.Struct:
		v := (*addr).(structure)
		a := make(structure, len(v))
		for i := range a {
			a[i] = load(T.Field(i).Type(), &v[i])
		}
		return a
	case *types.Array:
		v := (*addr).(array)
		a := make(array, len(v))
		for i := range a {
			a[i] = load(T.Elem(), &v[i])
		}
		return a
	default:
		return *addr
	}
}

// store stores value v of type T into *addr.
func store(T types.Type, addr *value, v value) {
	switch T := T.Underlying().(type) {
	case *types.Struct:
		lhs := (*addr).(structure)
		rhs := v.(structure)
		for i := range lhs {
			store(T.Field(i).Type(), &lhs[i], rhs[i])
		}
	case *types.Array:
		lhs := (*addr).(array)
		rhs := v.(array)
		for i := range lhs {
			store(T.Elem(), &lhs[i], rhs[i])
		}
	default:
		*addr = v
	}
}

// Prints in the style of built-in println.
// (More or less; in gc println is actually a compiler intrinsic and
// can distinguish println(1) from println(interface{}(1)).)
func writeValue(buf *bytes.Buffer, v value) {
	switch v := v.(type) {
	case nil, bool, int, int8, int16, int32, int64, uint, uint8, uint16, uint32, uint64, uintptr, float32, float64, complex64, complex128, string:
		fmt.Fprintf(buf, "%v", v)

	case *omap:
		buf.WriteString("map[")
		sep := ""
		for _, e := range v.live() {
			buf.WriteString(sep)
			sep = " "
			writeValue(buf, e.key)
			buf.WriteString(":")
			writeValue(buf, e.val)
		}
		buf.WriteString("]")

	case symB:
		buf.WriteString("<symB " + v.t.String() + ">")
	case symI:
		buf.WriteString("<symI " + v.t.String() + ">")
	case symS:
		buf.WriteString("<symS")
		for _, c := range v.b {
			buf.WriteString(" ")
			writeValue(buf, c)
		}
		buf.WriteString(">")

	case *echan:
		fmt.Fprintf(buf, "%p", v) // (an address)

	case *value:
		if v == nil {
			buf.WriteString("<nil>")
		} else {
			fmt.Fprintf(buf, "%p", v)
		}

	case iface:
		fmt.Fprintf(buf, "(%s, ", v.t)
		writeValue(buf, v.v)
		buf.WriteString(")")

	case structure:
		buf.WriteString("{")
		for i, e := range v {
			if i > 0 {
				buf.WriteString(" ")
			}
			writeValue(buf, e)
		}
		buf.WriteString("}")

	case array:
		buf.WriteString("[")
		for i, e := range v {
			if i > 0 {
				buf.WriteString(" ")
			}
			writeValue(buf, e)
		}
		buf.WriteString("]")

	case []value:
		buf.WriteString("[")
		for i, e := range v {
			if i > 0 {
				buf.WriteString(" ")
			}
			writeValue(buf, e)
		}
		buf.WriteString("]")

	case *ssa.Function, *ssa.Builtin, *closure:
		fmt.Fprintf(buf, "%p", v) // (an address)

	case rtype:
		buf.WriteString(v.t.String())

	case tuple:
		// Unreachable in well-formed Go programs
		buf.WriteString("(")
		for i, e := range v {
			if i > 0 {
				buf.WriteString(", ")
			}
			writeValue(buf, e)
		}
		buf.WriteString(")")

	default:
		fmt.Fprintf(buf, "<%T>", v)
	}
}

// Implements printing of Go values in the style of built-in println.
func toString(v value) string {
	var b bytes.Buffer
	writeValue(&b, v)
	return b.String()
}

