package main

// SMT terms: booleans and fixed-width bit-vectors (QF_BV). Terms are built with
// eager constant folding so that anything computable concretely never reaches
// the solver.

import (
	"fmt"
	"strings"
)

type Term struct {
	op   string // "c" const, "v" var, or an SMT-LIB operator name
	w    int    // bit width; 0 = Bool
	args []*Term
	val  uint64 // const payload (w<=64); for Bool: 0/1
	name string // var name (SMT symbol) ; for extract/zext/sext: parameters in p1,p2
	p1   int
	p2   int
	id   int
	emit int // solver session epoch in which a define-fun was emitted
}

type termTable struct {
	n      int
	intern map[string]*Term
}

func newTermTable() *termTable { return &termTable{intern: map[string]*Term{}} }

func (tt *termTable) mk(op string, w int, val uint64, name string, p1, p2 int, args ...*Term) *Term {
	var sb strings.Builder
	sb.WriteString(op)
	fmt.Fprintf(&sb, "|%d|%d|%s|%d|%d", w, val, name, p1, p2)
	for _, a := range args {
		fmt.Fprintf(&sb, ",%d", a.id)
	}
	k := sb.String()
	if tt.intern == nil {
		return &Term{op: op, w: w, val: val, name: name, p1: p1, p2: p2, args: args}
	}
	if t, ok := tt.intern[k]; ok {
		return t
	}
	tt.n++
	t := &Term{op: op, w: w, val: val, name: name, p1: p1, p2: p2, args: args, id: tt.n}
	tt.intern[k] = t
	return t
}

func mask(w int) uint64 {
	if w >= 64 {
		return ^uint64(0)
	}
	return (uint64(1) << uint(w)) - 1
}

func (tt *termTable) BV(w int, v uint64) *Term { return tt.mk("c", w, v&mask(w), "", 0, 0) }
func (tt *termTable) Bool(b bool) *Term {
	if b {
		return tt.mk("c", 0, 1, "", 0, 0)
	}
	return tt.mk("c", 0, 0, "", 0, 0)
}
func (tt *termTable) Var(name string, w int) *Term { return tt.mk("v", w, 0, name, 0, 0) }

func (t *Term) isConst() bool { return t.op == "c" }
func (t *Term) isTrue() bool  { return t.op == "c" && t.w == 0 && t.val == 1 }
func (t *Term) isFalse() bool { return t.op == "c" && t.w == 0 && t.val == 0 }

func sext64(v uint64, w int) int64 {
	if w >= 64 {
		return int64(v)
	}
	sh := uint(64 - w)
	return int64(v<<sh) >> sh
}

// ---- boolean connectives

func (tt *termTable) Not(a *Term) *Term {
	if a.isConst() {
		return tt.Bool(a.val == 0)
	}
	if a.op == "not" {
		return a.args[0]
	}
	return tt.mk("not", 0, 0, "", 0, 0, a)
}

func (tt *termTable) And(a, b *Term) *Term {
	if a.isFalse() || b.isFalse() {
		return tt.Bool(false)
	}
	if a.isTrue() {
		return b
	}
	if b.isTrue() {
		return a
	}
	if a == b {
		return a
	}
	return tt.mk("and", 0, 0, "", 0, 0, a, b)
}

func (tt *termTable) Or(a, b *Term) *Term {
	if a.isTrue() || b.isTrue() {
		return tt.Bool(true)
	}
	if a.isFalse() {
		return b
	}
	if b.isFalse() {
		return a
	}
	if a == b {
		return a
	}
	return tt.mk("or", 0, 0, "", 0, 0, a, b)
}

func (tt *termTable) Ite(c, a, b *Term) *Term {
	if c.isTrue() {
		return a
	}
	if c.isFalse() {
		return b
	}
	if a == b {
		return a
	}
	if a.w == 0 {
		if a.isTrue() && b.isFalse() {
			return c
		}
		if a.isFalse() && b.isTrue() {
			return tt.Not(c)
		}
	}
	return tt.mk("ite", a.w, 0, "", 0, 0, c, a, b)
}

func (tt *termTable) Eq(a, b *Term) *Term {
	if a == b {
		return tt.Bool(true)
	}
	if a.isConst() && b.isConst() {
		return tt.Bool(a.val == b.val)
	}
	if a.w != b.w {
		panic(fmt.Sprintf("Eq width mismatch %d %d", a.w, b.w))
	}
	if a.w == 0 {
		if a.isConst() {
			a, b = b, a
		}
		if b.isTrue() {
			return a
		}
		if b.isFalse() {
			return tt.Not(a)
		}
	}
	// zext(x) == const out of range of x → false ; in range → x == const'
	if a.isConst() {
		a, b = b, a
	}
	if b.isConst() && a.op == "zext" {
		inner := a.args[0]
		if b.val > mask(inner.w) {
			return tt.Bool(false)
		}
		return tt.Eq(inner, tt.BV(inner.w, b.val))
	}
	if a.id > b.id {
		a, b = b, a
	}
	return tt.mk("=", 0, 0, "", 0, 0, a, b)
}

// ---- bit-vector ops

func (tt *termTable) bvbin(op string, a, b *Term) *Term {
	if a.w != b.w {
		panic(fmt.Sprintf("%s width mismatch %d %d", op, a.w, b.w))
	}
	w := a.w
	if a.isConst() && b.isConst() {
		x, y := a.val, b.val
		var r uint64
		switch op {
		case "bvadd":
			r = x + y
		case "bvsub":
			r = x - y
		case "bvmul":
			r = x * y
		case "bvand":
			r = x & y
		case "bvor":
			r = x | y
		case "bvxor":
			r = x ^ y
		case "bvudiv":
			if y == 0 {
				r = mask(w)
			} else {
				r = x / y
			}
		case "bvurem":
			if y == 0 {
				r = x
			} else {
				r = x % y
			}
		case "bvsdiv":
			sx, sy := sext64(x, w), sext64(y, w)
			if sy == 0 {
				if sx < 0 {
					r = 1
				} else {
					r = mask(w)
				}
			} else if sy == -1 {
				r = uint64(-sx)
			} else {
				r = uint64(sx / sy)
			}
		case "bvsrem":
			sx, sy := sext64(x, w), sext64(y, w)
			if sy == 0 {
				r = x
			} else if sy == -1 {
				r = 0
			} else {
				r = uint64(sx % sy)
			}
		case "bvshl":
			if y >= uint64(w) {
				r = 0
			} else {
				r = x << y
			}
		case "bvlshr":
			if y >= uint64(w) {
				r = 0
			} else {
				r = x >> y
			}
		case "bvashr":
			sx := sext64(x, w)
			if y >= uint64(w) {
				if sx < 0 {
					r = mask(w)
				} else {
					r = 0
				}
			} else {
				r = uint64(sx >> y)
			}
		default:
			panic("bvbin const: " + op)
		}
		return tt.BV(w, r)
	}
	// identities
	switch op {
	case "bvadd", "bvor", "bvxor":
		if a.isConst() && a.val == 0 {
			return b
		}
		if b.isConst() && b.val == 0 {
			return a
		}
	case "bvsub", "bvshl", "bvlshr", "bvashr":
		if b.isConst() && b.val == 0 {
			return a
		}
	case "bvand":
		if (a.isConst() && a.val == 0) || (b.isConst() && b.val == 0) {
			return tt.BV(w, 0)
		}
		if a.isConst() && a.val == mask(w) {
			return b
		}
		if b.isConst() && b.val == mask(w) {
			return a
		}
	case "bvmul":
		if (a.isConst() && a.val == 0) || (b.isConst() && b.val == 0) {
			return tt.BV(w, 0)
		}
		if a.isConst() && a.val == 1 {
			return b
		}
		if b.isConst() && b.val == 1 {
			return a
		}
	}
	return tt.mk(op, w, 0, "", 0, 0, a, b)
}

func (tt *termTable) bvcmp(op string, a, b *Term) *Term {
	if a.w != b.w {
		panic(fmt.Sprintf("%s width mismatch %d %d", op, a.w, b.w))
	}
	if a.isConst() && b.isConst() {
		var r bool
		switch op {
		case "bvult":
			r = a.val < b.val
		case "bvule":
			r = a.val <= b.val
		case "bvslt":
			r = sext64(a.val, a.w) < sext64(b.val, b.w)
		case "bvsle":
			r = sext64(a.val, a.w) <= sext64(b.val, b.w)
		}
		return tt.Bool(r)
	}
	if a == b {
		return tt.Bool(op == "bvule" || op == "bvsle")
	}
	return tt.mk(op, 0, 0, "", 0, 0, a, b)
}

func (tt *termTable) Neg(a *Term) *Term {
	if a.isConst() {
		return tt.BV(a.w, -a.val)
	}
	return tt.mk("bvneg", a.w, 0, "", 0, 0, a)
}

func (tt *termTable) BNot(a *Term) *Term {
	if a.isConst() {
		return tt.BV(a.w, ^a.val)
	}
	return tt.mk("bvnot", a.w, 0, "", 0, 0, a)
}

func (tt *termTable) Extract(hi, lo int, a *Term) *Term {
	w := hi - lo + 1
	if w == a.w {
		return a
	}
	if a.isConst() {
		return tt.BV(w, a.val>>uint(lo))
	}
	if (a.op == "zext" || a.op == "sext") && lo == 0 && w <= a.args[0].w {
		return tt.Extract(hi, lo, a.args[0])
	}
	return tt.mk("extract", w, 0, "", hi, lo, a)
}

func (tt *termTable) ZExt(w int, a *Term) *Term {
	if w == a.w {
		return a
	}
	if w < a.w {
		return tt.Extract(w-1, 0, a)
	}
	if a.isConst() {
		return tt.BV(w, a.val)
	}
	if a.op == "zext" {
		return tt.ZExt(w, a.args[0])
	}
	return tt.mk("zext", w, 0, "", w-a.w, 0, a)
}

func (tt *termTable) SExt(w int, a *Term) *Term {
	if w == a.w {
		return a
	}
	if w < a.w {
		return tt.Extract(w-1, 0, a)
	}
	if a.isConst() {
		return tt.BV(w, uint64(sext64(a.val, a.w)))
	}
	return tt.mk("sext", w, 0, "", w-a.w, 0, a)
}

// ---- printing

func sortOf(w int) string {
	if w == 0 {
		return "Bool"
	}
	return fmt.Sprintf("(_ BitVec %d)", w)
}

func (t *Term) ref() string {
	switch t.op {
	case "c":
		if t.w == 0 {
			if t.val == 1 {
				return "true"
			}
			return "false"
		}
		return fmt.Sprintf("(_ bv%d %d)", t.val, t.w)
	case "v":
		return t.name
	}
	return fmt.Sprintf("t!%d", t.id)
}

// body prints the one-level definition of a non-leaf term in terms of refs.
func (t *Term) body() string {
	var sb strings.Builder
	switch t.op {
	case "extract":
		fmt.Fprintf(&sb, "((_ extract %d %d) %s)", t.p1, t.p2, t.args[0].ref())
	case "zext":
		fmt.Fprintf(&sb, "((_ zero_extend %d) %s)", t.p1, t.args[0].ref())
	case "sext":
		fmt.Fprintf(&sb, "((_ sign_extend %d) %s)", t.p1, t.args[0].ref())
	default:
		sb.WriteString("(")
		sb.WriteString(t.op)
		for _, a := range t.args {
			sb.WriteString(" ")
			sb.WriteString(a.ref())
		}
		sb.WriteString(")")
	}
	return sb.String()
}

// String prints the full tree (debugging / evidence samples only).
func (t *Term) String() string {
	switch t.op {
	case "c", "v":
		return t.ref()
	}
	var sb strings.Builder
	switch t.op {
	case "extract":
		fmt.Fprintf(&sb, "((_ extract %d %d) %s)", t.p1, t.p2, t.args[0])
	case "zext":
		fmt.Fprintf(&sb, "((_ zero_extend %d) %s)", t.p1, t.args[0])
	case "sext":
		fmt.Fprintf(&sb, "((_ sign_extend %d) %s)", t.p1, t.args[0])
	default:
		sb.WriteString("(" + t.op)
		for _, a := range t.args {
			sb.WriteString(" " + a.String())
		}
		sb.WriteString(")")
	}
	return sb.String()
}
