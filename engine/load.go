package main

// Loading /repo's current working tree (plus the harness overlay) into go/ssa.

import (
	"encoding/json"
	"fmt"
	"go/ast"
	"go/token"
	"go/types"
	"os"
	"path/filepath"
	"regexp"
	"sort"
	"strconv"
	"strings"
	"sync"

	"golang.org/x/tools/go/packages"
	"golang.org/x/tools/go/ssa"
	"golang.org/x/tools/go/ssa/ssautil"
)

type handlerFn func(fr *frame, args []value) value

type Env struct {
	prog               *ssa.Program
	pkg                *ssa.Package
	sizes              types.Sizes
	runtimeErrorString types.Type
	skipInit           map[string]bool
	stubs              map[string]*ssa.Function // target fn string → harness fn
	stubNames          map[string]string
	hcache             sync.Map // *ssa.Function → handlerFn (or nil)
	used               sync.Map // name → true
	declaredSites      map[string][]string
	trace              bool
	typesByName        map[string]types.Type
	repoDir            string
	bounds             map[string]int
}

var stubRe = regexp.MustCompile(`^//verif:stub\s+(\S.*\S)\s+->\s+(\S+)\s*$`)
var skipInitRe = regexp.MustCompile(`^//verif:skipinit\s+(\S+)\s*$`)

func (e *Env) handler(fn *ssa.Function) handlerFn {
	if h, ok := e.hcache.Load(fn); ok {
		if h == nil {
			return nil
		}
		return h.(handlerFn)
	}
	name := fn.String()
	var h handlerFn
	if tgt, ok := e.stubs[name]; ok {
		label := "stub[S]: " + name + " -> " + tgt.Name()
		h = func(fr *frame, args []value) value {
			fr.i.env.used.Store(label, true)
			return callSSA(fr.i, fr.caller, fr.callpos, tgt, args, nil, false)
		}
	} else if f, ok := intrinsics[name]; ok {
		h = wrapUsed(e, "intrinsic[A]: "+name, f)
	} else if o := fn.Origin(); o != nil {
		if f, ok := intrinsics[o.String()]; ok {
			h = wrapUsed(e, "intrinsic[A]: "+o.String(), f)
		}
	}
	if h == nil {
		if f := prefixIntrinsic(name); f != nil {
			h = wrapUsed(e, "intrinsic[A]: "+name, f)
		}
	}
	if h == nil {
		e.hcache.Store(fn, nil)
		return nil
	}
	e.hcache.Store(fn, h)
	return h
}

func wrapUsed(e *Env, label string, f handlerFn) handlerFn {
	first := true
	return func(fr *frame, args []value) value {
		if first {
			first = false
			e.used.Store(label, true)
		}
		return f(fr, args)
	}
}

func (e *Env) usedHandlers() []string {
	var out []string
	e.used.Range(func(k, v interface{}) bool { out = append(out, k.(string)); return true })
	sort.Strings(out)
	return out
}

// loadProgram loads pkgPattern (e.g. ./pkg/storage) from repoDir with the
// harness files overlaid as in-package _test.go files.
func loadProgram(repoDir, pkgPattern string, harnessFiles []string, ndTemplate string) (*Env, error) {
	pkgDir := filepath.Join(repoDir, pkgPattern)
	overlay := map[string][]byte{}
	var pkgName string
	stubNames := map[string]string{}
	skipInit := map[string]bool{}
	declared := map[string][]string{}
	for k, hf := range harnessFiles {
		src, err := os.ReadFile(hf)
		if err != nil {
			return nil, err
		}
		overlay[filepath.Join(pkgDir, fmt.Sprintf("zz_verif_h%d_test.go", k))] = src
		for _, line := range strings.Split(string(src), "\n") {
			line = strings.TrimSpace(line)
			if m := stubRe.FindStringSubmatch(line); m != nil {
				stubNames[m[1]] = m[2]
			}
			if m := skipInitRe.FindStringSubmatch(line); m != nil {
				skipInit[m[1]] = true
			}
			if strings.HasPrefix(line, "package ") && pkgName == "" {
				pkgName = strings.TrimSpace(strings.TrimPrefix(line, "package "))
			}
		}
	}
	nd, err := os.ReadFile(ndTemplate)
	if err != nil {
		return nil, err
	}
	overlay[filepath.Join(pkgDir, "zz_verif_nd_test.go")] = []byte(strings.Replace(string(nd), "package PKG", "package "+pkgName, 1))

	cfg := &packages.Config{
		Mode:    packages.LoadAllSyntax,
		Dir:     repoDir,
		Tests:   true,
		Overlay: overlay,
		Env:     os.Environ(),
	}
	pkgs, err := packages.Load(cfg, pkgPattern)
	if err != nil {
		return nil, err
	}
	var target *packages.Package
	for _, p := range pkgs {
		if strings.Contains(p.ID, ".test]") && !strings.HasSuffix(p.Name, "_test") && p.Name == pkgName {
			target = p
		}
	}
	if target == nil {
		var ids []string
		for _, p := range pkgs {
			ids = append(ids, p.ID)
		}
		return nil, fmt.Errorf("no in-package test variant found for %s among %v", pkgPattern, ids)
	}
	nerr := 0
	packages.Visit([]*packages.Package{target}, nil, func(p *packages.Package) {
		for _, e := range p.Errors {
			if nerr < 10 {
				fmt.Fprintf(os.Stderr, "load error: %s: %v\n", p.ID, e)
			}
			nerr++
		}
	})
	if nerr > 0 {
		return nil, fmt.Errorf("%d package load errors (harness does not compile against /repo?)", nerr)
	}
	prog, _ := ssautil.AllPackages([]*packages.Package{target}, ssa.InstantiateGenerics)
	prog.Build()
	env := &Env{prog: prog, skipInit: skipInit, stubs: map[string]*ssa.Function{}, stubNames: stubNames,
		declaredSites: declared, repoDir: repoDir, typesByName: map[string]types.Type{}, bounds: map[string]int{}}
	if b := os.Getenv("VERIF_BOUNDS"); b != "" {
		if err := json.Unmarshal([]byte(b), &env.bounds); err != nil {
			return nil, fmt.Errorf("VERIF_BOUNDS: %v", err)
		}
	}
	env.pkg = prog.Package(target.Types)
	if env.pkg == nil {
		return nil, fmt.Errorf("no ssa package for %s", target.ID)
	}
	env.sizes = target.TypesSizes
	rt := prog.ImportedPackage("runtime")
	if rt == nil {
		return nil, fmt.Errorf("runtime package not in program")
	}
	env.runtimeErrorString = rt.Type("errorString").Object().Type()
	for tgt, hname := range stubNames {
		f := env.pkg.Func(hname)
		if f == nil {
			return nil, fmt.Errorf("stub target %s: harness function %s not found", tgt, hname)
		}
		env.stubs[tgt] = f
	}
	// declared assertion sites per entry function: string literals passed to vAssert
	for _, f := range target.Syntax {
		name := prog.Fset.Position(f.Pos()).Filename
		if !strings.Contains(filepath.Base(name), "zz_verif_h") {
			continue
		}
		collectSites(f, declared)
	}
	return env, nil
}

// collectSites records, per top-level harness function, the literal site names
// of vAssert calls in it and (transitively, one file) in helpers it calls.
func collectSites(f *ast.File, out map[string][]string) {
	direct := map[string][]string{}
	calls := map[string][]string{}
	for _, d := range f.Decls {
		fd, ok := d.(*ast.FuncDecl)
		if !ok || fd.Body == nil {
			continue
		}
		ast.Inspect(fd.Body, func(n ast.Node) bool {
			ce, ok := n.(*ast.CallExpr)
			if !ok {
				return true
			}
			if id, ok := ce.Fun.(*ast.Ident); ok {
				if (id.Name == "vAssert" || id.Name == "vAssertTag") && len(ce.Args) > 0 {
					if bl, ok := ce.Args[0].(*ast.BasicLit); ok && bl.Kind == token.STRING {
						s, _ := strconv.Unquote(bl.Value)
						direct[fd.Name.Name] = append(direct[fd.Name.Name], s)
					}
				} else {
					calls[fd.Name.Name] = append(calls[fd.Name.Name], id.Name)
				}
			}
			return true
		})
	}
	for fn := range direct {
		_ = fn
	}
	var closure func(fn string, seen map[string]bool, acc map[string]bool)
	closure = func(fn string, seen map[string]bool, acc map[string]bool) {
		if seen[fn] {
			return
		}
		seen[fn] = true
		for _, s := range direct[fn] {
			acc[s] = true
		}
		for _, c := range calls[fn] {
			closure(c, seen, acc)
		}
	}
	names := map[string]bool{}
	for k := range direct {
		names[k] = true
	}
	for k := range calls {
		names[k] = true
	}
	for fn := range names {
		acc := map[string]bool{}
		closure(fn, map[string]bool{}, acc)
		if len(acc) > 0 {
			out[fn] = append(out[fn], sortedKeys(acc)...)
		}
	}
}
