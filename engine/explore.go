package main

import (
	"fmt"
	"go/token"
	"os"
	"runtime/debug"
	"sort"
	"strings"
	"sync"
	"time"

	"golang.org/x/tools/go/ssa"
)

type Limits struct {
	MaxInstrs    int64
	MaxDecisions int
	MaxPaths     int
	Workers      int
	SolverKind   string
	TimeoutMs    int
	Deadline     time.Time
	MaxSamples   int
}

// PathSample is a concrete witness of one completed path: the inputs (a solver
// model of the path condition) and what the harness observed on it.
type PathSample struct {
	Harness   string            `json:"harness"`
	Decisions string            `json:"decisions"`
	Model     map[string]uint64 `json:"model"`
	Strings   map[string]string `json:"strings,omitempty"`
	Observed  []string          `json:"observed"`
}

type pathResult struct {
	status      string // ok | violation | infeasible | assumed | truncated | error
	reason      string
	viol        *Violation
	newWork     [][]decision
	decisions   int
	instrs      int64
	obligations int
	discharged  int
	concreteOK  int
	domainDec   int
	sites       map[string]int
	unknowns    []string
	witness     map[string]uint64
	witnessStr  map[string]string
	observed    []string
	trace       string
}

type HarnessResult struct {
	Harness        string              `json:"harness"`
	Paths          int                 `json:"paths_completed"`
	Infeasible     int                 `json:"paths_infeasible"`
	Assumed        int                 `json:"paths_assumed_away"`
	Truncated      int                 `json:"paths_truncated"`
	Errors         int                 `json:"paths_engine_error"`
	Decisions      int64               `json:"decisions"`
	Instrs         int64               `json:"ssa_instructions"`
	MaxPathInstrs  int64               `json:"max_path_instructions"`
	Obligations    int                 `json:"obligations"`
	Discharged     int                 `json:"discharged"`
	ConcreteOK     int                 `json:"discharged_concretely"`
	DomainDecisions int64              `json:"feasibility_decided_by_unary_domain"`
	Sites          map[string]int      `json:"assert_sites_reached"`
	SitesDeclared  []string            `json:"assert_sites_declared"`
	SitesUnreached []string            `json:"assert_sites_unreached"`
	Violations     []*Violation        `json:"violations"`
	ViolationCount int                 `json:"violation_count"`
	ViolationClasses map[string]int    `json:"violation_classes"`
	Unknowns       map[string]int      `json:"solver_unknowns"`
	ErrorSamples   []string            `json:"error_samples"`
	TruncSamples   []string            `json:"truncation_samples"`
	Queries        int                 `json:"solver_queries"`
	SolverTime     float64             `json:"solver_time_s"`
	SolverErrors   []string            `json:"solver_errors"`
	Wall           float64             `json:"wall_s"`
	Samples        []*PathSample       `json:"samples"`
	Funcs          []string            `json:"functions_encoded"`
	Handlers       []string            `json:"intrinsics_and_stubs_used"`
	Exhausted      bool                `json:"worklist_exhausted"`
	Distinct       int                 `json:"distinct_path_witnesses"`
}

// explore runs one harness entry to exhaustion of its path tree (or limits).
func explore(env *Env, entry *ssa.Function, lim Limits) *HarnessResult {
	t0 := time.Now()
	res := &HarnessResult{Harness: entry.Name(), Sites: map[string]int{}, Unknowns: map[string]int{}, ViolationClasses: map[string]int{}}
	var mu sync.Mutex
	cond := sync.NewCond(&mu)
	work := [][]decision{nil}
	busy := 0
	started := 0
	funcs := map[*ssa.Function]bool{}
	seenViol := map[string]bool{}
	witnessSeen := map[string]bool{}
	stop := false

	worker := func(id int) {
		solver, err := NewSolver(lim.SolverKind, lim.TimeoutMs)
		if err != nil {
			mu.Lock()
			res.SolverErrors = append(res.SolverErrors, err.Error())
			stop = true
			cond.Broadcast()
			mu.Unlock()
			return
		}
		defer solver.Close()
		in := newInterpreter(env)
		for {
			mu.Lock()
			for len(work) == 0 && busy > 0 && !stop {
				cond.Wait()
			}
			if stop || (len(work) == 0 && busy == 0) {
				cond.Broadcast()
				mu.Unlock()
				break
			}
			if lim.MaxPaths > 0 && started >= lim.MaxPaths || (!lim.Deadline.IsZero() && time.Now().After(lim.Deadline)) {
				stop = true
				cond.Broadcast()
				mu.Unlock()
				break
			}
			prefix := work[len(work)-1]
			work = work[:len(work)-1]
			busy++
			started++
			mu.Unlock()

			pr := runPath(in, entry, prefix, solver, lim)

			mu.Lock()
			busy--
			work = append(work, pr.newWork...)
			res.Decisions += int64(pr.decisions)
			res.Instrs += pr.instrs
			if pr.instrs > res.MaxPathInstrs {
				res.MaxPathInstrs = pr.instrs
			}
			res.Obligations += pr.obligations
			res.Discharged += pr.discharged
			res.ConcreteOK += pr.concreteOK
			res.DomainDecisions += int64(pr.domainDec)
			for s, n := range pr.sites {
				res.Sites[s] += n
			}
			for _, u := range pr.unknowns {
				res.Unknowns[u]++
			}
			switch pr.status {
			case "ok":
				res.Paths++
				if pr.witness != nil {
					key := fmt.Sprint(pr.witness)
					if !witnessSeen[key] {
						witnessSeen[key] = true
						if len(res.Samples) < lim.MaxSamples {
							res.Samples = append(res.Samples, &PathSample{Harness: entry.Name(), Decisions: pr.trace,
								Model: pr.witness, Strings: pr.witnessStr, Observed: pr.observed})
						}
					}
				}
			case "violation":
				res.Paths++
				res.ViolationCount++
				key := pr.viol.Site + "|" + pr.viol.Kind + "|" + tagClass(pr.viol.Tag)
				res.ViolationClasses[key]++
				if !seenViol[key] {
					seenViol[key] = true
					res.Violations = append(res.Violations, pr.viol)
				} else if len(res.Violations) < 60 && countKey(res.Violations, key) < 2 {
					res.Violations = append(res.Violations, pr.viol)
				}
			case "infeasible":
				res.Infeasible++
			case "assumed":
				res.Assumed++
			case "truncated":
				res.Truncated++
				if len(res.TruncSamples) < 5 {
					res.TruncSamples = append(res.TruncSamples, pr.reason+" decisions="+pr.trace)
				}
			case "error":
				res.Errors++
				if len(res.ErrorSamples) < 5 {
					res.ErrorSamples = append(res.ErrorSamples, pr.reason)
				}
			}
			cond.Broadcast()
			mu.Unlock()
		}
		mu.Lock()
		res.Queries += solver.Queries
		res.SolverTime += solver.Time.Seconds()
		for _, e := range solver.Errors {
			if len(res.SolverErrors) < 10 {
				res.SolverErrors = append(res.SolverErrors, e)
			}
		}
		for f := range in.funcsSeen {
			funcs[f] = true
		}
		mu.Unlock()
	}
	var wg sync.WaitGroup
	for w := 0; w < lim.Workers; w++ {
		wg.Add(1)
		go func(id int) { defer wg.Done(); worker(id) }(w)
	}
	wg.Wait()
	res.Exhausted = len(work) == 0 && !stop
	res.Distinct = len(witnessSeen)
	res.Wall = time.Since(t0).Seconds()
	for f := range funcs {
		pos := env.prog.Fset.Position(f.Pos())
		name := f.String()
		if pos.IsValid() {
			name += " @" + shortPath(pos.Filename) + fmt.Sprintf(":%d", pos.Line)
		}
		res.Funcs = append(res.Funcs, name)
	}
	sort.Strings(res.Funcs)
	res.Handlers = env.usedHandlers()
	res.SitesDeclared = env.declaredSites[entry.Name()]
	for _, s := range res.SitesDeclared {
		if res.Sites[s] == 0 {
			res.SitesUnreached = append(res.SitesUnreached, s)
		}
	}
	return res
}

// tagClass: the part of a cause tag before " | " names the class of the
// violation (operation, faults); the rest is detail.
func tagClass(tag string) string {
	if k := strings.Index(tag, " | "); k >= 0 {
		return tag[:k]
	}
	return tag
}

func countKey(vs []*Violation, key string) int {
	n := 0
	for _, v := range vs {
		if v.Site+"|"+v.Kind+"|"+tagClass(v.Tag) == key {
			n++
		}
	}
	return n
}

func shortPath(p string) string {
	if k := strings.Index(p, "/pkg/mod/"); k >= 0 {
		return p[k+9:]
	}
	return strings.TrimPrefix(p, "/repo/")
}

func newInterpreter(env *Env) *interpreter {
	in := &interpreter{
		prog:      env.prog,
		globals:   map[*ssa.Global]*value{},
		inited:    map[*ssa.Package]bool{},
		sizes:     env.sizes,
		env:       env,
		funcsSeen: map[*ssa.Function]bool{},
		trace:     env.trace,
	}
	in.runtimeErrorString = env.runtimeErrorString
	return in
}

// beginPath resets the path-specific parts of the worker state. Globals of
// helm's own packages (and of the harness) are re-initialised on every path;
// those of other modules persist per worker (treated as immutable after init).
func (in *interpreter) beginPath(ps *pathState) {
	in.ps = ps
	in.sched = newScheduler()
	in.race = nil
	in.depth = 0
	in.timeCounter = 0
	for g := range in.globals {
		if isHelmPkg(g.Pkg) {
			delete(in.globals, g)
		}
	}
	for p := range in.inited {
		if isHelmPkg(p) {
			delete(in.inited, p)
		}
	}
}

func runPath(in *interpreter, entry *ssa.Function, prefix []decision, solver *Solver, lim Limits) (pr pathResult) {
	solver.Reset()
	ps := &pathState{
		tt: newTermTable(), solver: solver, prefix: prefix,
		varSeq: map[string]int{}, maxInstrs: lim.MaxInstrs, maxDecisions: lim.MaxDecisions,
		sitesHit: map[string]int{}, harness: entry.Name(), strVars: map[string][]*Term{}, doms: map[*Term]*domain{},
	}
	in.beginPath(ps)
	finish := func(status, reason string) {
		pr.status, pr.reason = status, reason
		pr.newWork = ps.newWork
		pr.decisions = len(ps.trace)
		pr.instrs = ps.instrs
		pr.obligations, pr.discharged, pr.concreteOK = ps.obligations, ps.discharged, ps.concreteOK
		pr.domainDec = ps.domainDecisions
		pr.sites = ps.sitesHit
		pr.unknowns = ps.unknowns
		pr.trace = traceString(ps.trace)
	}
	func() {
		defer func() {
			r := recover()
			in.reapAll()
			switch r := r.(type) {
			case nil:
				if ps.pos < len(ps.prefix) {
					finish("error", fmt.Sprintf("replay diverged: prefix has %d decisions, path used %d", len(ps.prefix), ps.pos))
					return
				}
				finish("ok", "")
				if m, s, obs, ok := ps.model(); ok {
					pr.witness, pr.witnessStr, pr.observed = m, s, obs
				}
			case pathEnd:
				switch {
				case r.status == "violation":
					finish("violation", r.reason)
				case strings.HasPrefix(r.status, "violation-"):
					kind := strings.TrimPrefix(r.status, "violation-")
					pr.viol = ps.violation(kind, kind, r.reason)
					finish("violation", r.reason)
				default:
					finish(r.status, r.reason)
				}
			case targetPanic:
				msg := in.panicString(r)
				if ps.expectPanic {
					finish("ok", "expected panic: "+msg)
					return
				}
				pr.viol = ps.violation("panic", "panic", msg)
				pr.viol.Stack = in.lastPanicStack
				finish("violation", msg)
			case engineError:
				finish("error", r.msg+"\n  engine stack:\n"+trimStack(r.stack))
			default:
				finish("error", fmt.Sprintf("host panic: %v\n%s", r, trimStack(string(debug.Stack()))))
			}
		}()
		callSSA(in, nil, token.NoPos, entry, nil, nil, false)
	}()
	if pr.viol == nil && pr.status == "violation" {
		pr.viol = ps.pendingViolation
	}
	return
}

func trimStack(s string) string {
	lines := strings.Split(s, "\n")
	var out []string
	for _, l := range lines {
		if strings.Contains(l, "/engine/") && !strings.Contains(l, "runFrame") && !strings.Contains(l, "callSSA") && !strings.Contains(l, "visitInstr") {
			out = append(out, strings.TrimSpace(l))
		}
		if len(out) > 14 {
			break
		}
	}
	return strings.Join(out, "\n")
}

func fatalf(format string, a ...interface{}) {
	fmt.Fprintf(os.Stderr, format+"\n", a...)
	os.Exit(2)
}
