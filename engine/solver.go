package main

// One long-lived SMT solver process per worker, spoken to over a pipe in
// SMT-LIB2. Every non-leaf term is introduced once per session with a
// define-fun so that printing stays linear in DAG size. Queries use
// check-sat-assuming so no push/pop bookkeeping is needed.

import (
	"bufio"
	"fmt"
	"io"
	"os"
	"os/exec"
	"strconv"
	"strings"
	"time"
)

type Solver struct {
	kind    string // z3 | z3-new | cvc5
	cmd     *exec.Cmd
	in      io.WriteCloser
	out     *bufio.Reader
	epoch   int
	buf     strings.Builder
	Queries int
	Time    time.Duration
	Errors  []string
	timeout int // ms per query
	logf    io.Writer
	decl    map[string]bool
}

func NewSolver(kind string, timeoutMs int) (*Solver, error) {
	var cmd *exec.Cmd
	switch kind {
	case "z3":
		cmd = exec.Command("/usr/bin/z3", "-in", "-smt2")
	case "z3-new":
		cmd = exec.Command("z3-new", "-in", "-smt2")
	case "cvc5":
		cmd = exec.Command("cvc5", "--incremental", "--lang=smt2", "--produce-models", fmt.Sprintf("--tlimit-per=%d", timeoutMs))
	default:
		return nil, fmt.Errorf("unknown solver %q", kind)
	}
	in, err := cmd.StdinPipe()
	if err != nil {
		return nil, err
	}
	out, err := cmd.StdoutPipe()
	if err != nil {
		return nil, err
	}
	cmd.Stderr = nil
	if err := cmd.Start(); err != nil {
		return nil, err
	}
	s := &Solver{kind: kind, cmd: cmd, in: in, out: bufio.NewReaderSize(out, 1<<16), timeout: timeoutMs}
	if p := os.Getenv("GOSYM_SOLVER_LOG"); p != "" {
		s.logf, _ = os.OpenFile(p, os.O_CREATE|os.O_WRONLY|os.O_APPEND, 0o644)
	}
	s.Reset()
	return s, nil
}

func (s *Solver) Close() {
	if s.cmd != nil {
		s.in.Close()
		s.cmd.Process.Kill()
		s.cmd.Wait()
		s.cmd = nil
	}
}

// Reset starts a new session (one per path).
func (s *Solver) Reset() {
	s.epoch++
	s.decl = map[string]bool{}
	if s.epoch > 1 {
		s.buf.WriteString("(pop 1)\n(push 1)\n")
		return
	}
	if s.kind == "cvc5" {
		s.buf.WriteString("(set-logic QF_BV)\n")
	} else {
		fmt.Fprintf(&s.buf, "(set-option :timeout %d)\n", s.timeout)
	}
	s.buf.WriteString("(push 1)\n")
}

func (s *Solver) declare(t *Term) {
	if t.emit == s.epoch {
		return
	}
	switch t.op {
	case "c":
		return
	case "v":
		t.emit = s.epoch
		if !s.decl[t.name] {
			s.decl[t.name] = true
			fmt.Fprintf(&s.buf, "(declare-const %s %s)\n", t.name, sortOf(t.w))
		}
		return
	}
	// iterative post-order to avoid deep recursion
	type fr struct {
		t *Term
		i int
	}
	stack := []fr{{t, 0}}
	for len(stack) > 0 {
		top := &stack[len(stack)-1]
		if top.t.emit == s.epoch || top.t.op == "c" {
			stack = stack[:len(stack)-1]
			continue
		}
		if top.t.op == "v" {
			s.declare(top.t)
			stack = stack[:len(stack)-1]
			continue
		}
		if top.i < len(top.t.args) {
			a := top.t.args[top.i]
			top.i++
			if a.emit != s.epoch && a.op != "c" {
				stack = append(stack, fr{a, 0})
			}
			continue
		}
		top.t.emit = s.epoch
		fmt.Fprintf(&s.buf, "(define-fun %s () %s %s)\n", top.t.ref(), sortOf(top.t.w), top.t.body())
		stack = stack[:len(stack)-1]
	}
}

// Assert adds t permanently to the session.
func (s *Solver) Assert(t *Term) {
	s.declare(t)
	fmt.Fprintf(&s.buf, "(assert %s)\n", t.ref())
}

func (s *Solver) flush() {
	if s.logf != nil {
		io.WriteString(s.logf, s.buf.String())
	}
	io.WriteString(s.in, s.buf.String())
	s.buf.Reset()
}

func (s *Solver) readLine() string {
	line, err := s.out.ReadString('\n')
	if err != nil {
		s.Errors = append(s.Errors, "solver pipe: "+err.Error())
		return "unknown"
	}
	return strings.TrimSpace(line)
}

// Check returns "sat", "unsat" or "unknown" for (session assertions ∧ lits).
func (s *Solver) Check(lits ...*Term) string {
	for _, l := range lits {
		s.declare(l)
	}
	if len(lits) == 0 {
		s.buf.WriteString("(check-sat)\n")
	} else {
		s.buf.WriteString("(check-sat-assuming (")
		for _, l := range lits {
			s.buf.WriteString(l.ref() + " ")
		}
		s.buf.WriteString("))\n")
	}
	t0 := time.Now()
	s.flush()
	res := "unknown"
	for {
		line := s.readLine()
		if strings.HasPrefix(line, "(error") {
			s.Errors = append(s.Errors, line)
			res = "error"
			continue
		}
		if line == "sat" || line == "unsat" || line == "unknown" {
			if res != "error" {
				res = line
			}
			break
		}
		if line == "" {
			continue
		}
		// unexpected noise (e.g. cvc5 "timeout") → unknown
		if strings.Contains(line, "timeout") || strings.Contains(line, "interrupted") {
			res = "unknown"
			break
		}
		s.Errors = append(s.Errors, "unexpected solver output: "+line)
	}
	s.Queries++
	s.Time += time.Since(t0)
	if res == "error" {
		return "unknown"
	}
	return res
}

// Model returns values for the given variables after a sat answer. If lits
// were used for the sat check they must be passed again: the model is obtained
// by re-checking with them asserted in a push scope.
func (s *Solver) Model(vars []*Term) map[string]uint64 {
	m := map[string]uint64{}
	if len(vars) == 0 {
		return m
	}
	for _, v := range vars {
		s.declare(v)
	}
	s.buf.WriteString("(get-value (")
	for _, v := range vars {
		s.buf.WriteString(v.ref() + " ")
	}
	s.buf.WriteString("))\n")
	s.flush()
	// read balanced s-expression
	var sb strings.Builder
	depth := 0
	started := false
	for {
		line, err := s.out.ReadString('\n')
		if err != nil {
			s.Errors = append(s.Errors, "solver pipe (model): "+err.Error())
			return m
		}
		if strings.HasPrefix(strings.TrimSpace(line), "(error") {
			s.Errors = append(s.Errors, strings.TrimSpace(line))
			return m
		}
		for _, c := range line {
			if c == '(' {
				depth++
				started = true
			} else if c == ')' {
				depth--
			}
		}
		sb.WriteString(line)
		if started && depth <= 0 {
			break
		}
	}
	toks := tokenize(sb.String())
	// expect ( ( name value ) ... ) where value is #x.., #b.., true/false or (_ bvN W)
	i := 0
	next := func() string {
		if i < len(toks) {
			t := toks[i]
			i++
			return t
		}
		return ""
	}
	next() // (
	for i < len(toks) {
		t := next()
		if t != "(" {
			break
		}
		name := next()
		v := next()
		var val uint64
		switch {
		case v == "true":
			val = 1
		case v == "false":
			val = 0
		case strings.HasPrefix(v, "#x"):
			val, _ = strconv.ParseUint(v[2:], 16, 64)
		case strings.HasPrefix(v, "#b"):
			val, _ = strconv.ParseUint(v[2:], 2, 64)
		case v == "(":
			next() // _
			bv := next()
			next() // width
			next() // )
			val, _ = strconv.ParseUint(strings.TrimPrefix(bv, "bv"), 10, 64)
		}
		next() // )
		m[name] = val
	}
	return m
}

func tokenize(s string) []string {
	var toks []string
	cur := ""
	quoted := false
	for _, c := range s {
		// |quoted symbols| may contain spaces and parentheses: one token
		if quoted {
			cur += string(c)
			if c == '|' {
				quoted = false
				toks = append(toks, cur)
				cur = ""
			}
			continue
		}
		if c == '|' && cur == "" {
			quoted = true
			cur = "|"
			continue
		}
		switch c {
		case '(', ')':
			if cur != "" {
				toks = append(toks, cur)
				cur = ""
			}
			toks = append(toks, string(c))
		case ' ', '\n', '\t', '\r':
			if cur != "" {
				toks = append(toks, cur)
				cur = ""
			}
		default:
			cur += string(c)
		}
	}
	if cur != "" {
		toks = append(toks, cur)
	}
	return toks
}
