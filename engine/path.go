package main

// Path state and exploration. A path is identified by its decision vector;
// run(prefix) re-executes the harness from the start following the prefix and
// then taking fresh decisions, pushing the unexplored alternatives on the work
// list. The solver decides feasibility of every fresh decision and every
// assertion.

import (
	"encoding/hex"
	"fmt"
	"sort"
	"strings"
)

type decision struct {
	taken bool
	val   uint64 // for value picks: the candidate value this decision was about
}

type Violation struct {
	Harness   string            `json:"harness"`
	Site      string            `json:"site"`
	Kind      string            `json:"kind"` // assert | panic | deadlock | depth
	Msg       string            `json:"msg"`
	Tag       string            `json:"tag,omitempty"`
	Model     map[string]uint64 `json:"model"`
	Strings   map[string]string `json:"strings,omitempty"`
	Decisions string            `json:"decisions"`
	Observed  []string          `json:"observed,omitempty"`
	Stack     []string          `json:"stack,omitempty"`
}

type pathState struct {
	tt      *termTable
	solver  *Solver
	prefix  []decision
	pos     int
	trace   []decision
	pc      []*Term
	vars    []*Term
	varSeq  map[string]int
	newWork [][]decision

	instrs       int64
	maxInstrs    int64
	maxDecisions int

	obligations int
	discharged  int
	concreteOK  int
	sitesHit    map[string]int
	observed    []value // strings (possibly symbolic), evaluated under the final model
	unknowns    []string
	asyncFailure interface{}
	pendingViolation *Violation
	doms            map[*Term]*domain
	domainDecisions int
	mapOrderSym bool
	tag         string
	expectPanic bool
	fresh       int
	faults      int
	harness     string
	strVars     map[string][]*Term // ndString name → byte vars (for readable models)
}

func (ps *pathState) addPC(t *Term) {
	ps.pc = append(ps.pc, t)
	ps.solver.Assert(t)
	ps.domainAssume(t)
}

// branch decides a symbolic condition for this path.
func (ps *pathState) branch(cond *Term) bool {
	if cond.isConst() {
		return cond.val == 1
	}
	tt := ps.tt
	if ps.pos < len(ps.prefix) {
		d := ps.prefix[ps.pos]
		ps.pos++
		ps.trace = append(ps.trace, d)
		if d.taken {
			ps.addPC(cond)
		} else {
			ps.addPC(tt.Not(cond))
		}
		return d.taken
	}
	if len(ps.trace) >= ps.maxDecisions {
		panic(pathEnd{"truncated", fmt.Sprintf("decision bound %d exceeded", ps.maxDecisions)})
	}
	if canT, canF, ok := ps.domainDecide(cond); ok {
		switch {
		case canT && canF:
			alt := make([]decision, len(ps.trace)+1)
			copy(alt, ps.trace)
			alt[len(ps.trace)] = decision{taken: false}
			ps.newWork = append(ps.newWork, alt)
			ps.trace = append(ps.trace, decision{taken: true})
			ps.addPC(cond)
			return true
		case canT:
			ps.trace = append(ps.trace, decision{taken: true})
			ps.addPC(cond)
			return true
		case canF:
			ps.trace = append(ps.trace, decision{taken: false})
			ps.addPC(tt.Not(cond))
			return false
		}
		panic(engErr("branch: path condition has an empty domain"))
	}
	r := ps.solver.Check(cond)
	if r == "unsat" {
		// PC is feasible, so the other side is
		ps.trace = append(ps.trace, decision{taken: false})
		ps.addPC(tt.Not(cond))
		return false
	}
	if r == "unknown" {
		ps.unknowns = append(ps.unknowns, "branch feasibility")
	}
	// the alternative is verified now (one query) rather than by re-executing
	// the whole prefix only to find it infeasible
	r2 := ps.solver.Check(tt.Not(cond))
	if r2 == "unknown" {
		ps.unknowns = append(ps.unknowns, "branch feasibility")
	}
	if r2 != "unsat" {
		alt := make([]decision, len(ps.trace)+1)
		copy(alt, ps.trace)
		alt[len(ps.trace)] = decision{taken: false}
		ps.newWork = append(ps.newWork, alt)
	}
	ps.trace = append(ps.trace, decision{taken: true})
	ps.addPC(cond)
	return true
}

// pickValue forks over the feasible values of t: the first path takes the
// value of the current model, the alternative excludes it and picks again.
func (ps *pathState) pickValue(t *Term) uint64 {
	if t.isConst() {
		return t.val
	}
	tt := ps.tt
	for n := 0; ; n++ {
		if n > 256 {
			panic(engErr("concretize: more than 256 feasible values"))
		}
		var c uint64
		if ps.pos < len(ps.prefix) {
			d := ps.prefix[ps.pos]
			ps.pos++
			ps.trace = append(ps.trace, d)
			c = d.val
			eq := tt.Eq(t, tt.BV(t.w, c))
			if d.taken {
				ps.addPC(eq)
			} else {
				ps.addPC(tt.Not(eq))
			}
			if ps.pos == len(ps.prefix) {
				switch ps.solver.Check() {
				case "unsat":
					panic(pathEnd{"infeasible", ""})
				case "unknown":
					ps.unknowns = append(ps.unknowns, "feasibility of alternative value")
				}
			}
			if d.taken {
				return c
			}
			continue
		}
		if len(ps.trace) >= ps.maxDecisions {
			panic(pathEnd{"truncated", fmt.Sprintf("decision bound %d exceeded", ps.maxDecisions)})
		}
		r := ps.solver.Check()
		if r != "sat" {
			if r == "unsat" {
				panic(engErr("pickValue: PC infeasible"))
			}
			panic(pathEnd{"truncated", "solver unknown while concretizing"})
		}
		m := ps.solver.Model([]*Term{t})
		c = m[t.ref()]
		alt := make([]decision, len(ps.trace)+1)
		copy(alt, ps.trace)
		alt[len(ps.trace)] = decision{taken: false, val: c}
		ps.newWork = append(ps.newWork, alt)
		ps.trace = append(ps.trace, decision{taken: true, val: c})
		ps.addPC(tt.Eq(t, tt.BV(t.w, c)))
		return c
	}
}

func (ps *pathState) freshBool(prefix string) *Term {
	ps.fresh++
	return ps.newVar(fmt.Sprintf("%s!%d", prefix, ps.fresh), 0)
}

// newVar declares a named symbolic input. Names get an occurrence suffix so the
// native replay can address them deterministically.
func (ps *pathState) newVar(name string, w int) *Term {
	k := ps.varSeq[name]
	ps.varSeq[name] = k + 1
	full := fmt.Sprintf("%s#%d", name, k)
	v := ps.tt.Var(smtSym(full), w)
	ps.vars = append(ps.vars, v)
	return v
}

func smtSym(s string) string { return "|" + strings.ReplaceAll(s, "|", "_") + "|" }

func (ps *pathState) assume(cond *Term) {
	if cond.isTrue() {
		return
	}
	if cond.isFalse() {
		panic(pathEnd{"assumed", ""})
	}
	if canT, _, ok := ps.domainDecide(cond); ok {
		if !canT {
			panic(pathEnd{"assumed", ""})
		}
		ps.addPC(cond)
		return
	}
	switch ps.solver.Check(cond) {
	case "unsat":
		panic(pathEnd{"assumed", ""})
	case "unknown":
		ps.unknowns = append(ps.unknowns, "assumption feasibility")
	}
	ps.addPC(cond)
}

// model returns the current model of all declared inputs (PC must be sat),
// the readable ndString values, and the observation log evaluated under it.
func (ps *pathState) model(extra ...*Term) (map[string]uint64, map[string]string, []string, bool) {
	r := ps.solver.Check(extra...)
	if r != "sat" {
		return nil, nil, nil, false
	}
	q := append([]*Term{}, ps.vars...)
	seen := map[*Term]bool{}
	for _, v := range q {
		seen[v] = true
	}
	for _, o := range ps.observed {
		if s, ok := o.(symS); ok {
			for _, c := range s.b {
				if ci, ok := c.(symI); ok && !seen[ci.t] {
					seen[ci.t] = true
					q = append(q, ci.t)
				}
			}
		}
	}
	raw := ps.solver.Model(q)
	m := map[string]uint64{}
	for _, v := range ps.vars {
		m[strings.Trim(v.name, "|")] = raw[v.ref()]
	}
	strs := map[string]string{}
	for name, bs := range ps.strVars {
		b := make([]byte, len(bs))
		for k, t := range bs {
			b[k] = byte(raw[t.ref()])
		}
		strs[name] = string(b)
	}
	var obs []string
	for _, o := range ps.observed {
		switch o := o.(type) {
		case string:
			obs = append(obs, hex.EncodeToString([]byte(o)))
		case symS:
			b := make([]byte, len(o.b))
			for k, c := range o.b {
				switch c := c.(type) {
				case uint8:
					b[k] = c
				case symI:
					b[k] = byte(raw[c.t.ref()])
				}
			}
			obs = append(obs, hex.EncodeToString(b))
		}
	}
	return m, strs, obs, true
}

func (ps *pathState) violation(kind, site, msg string, extra ...*Term) *Violation {
	v := &Violation{Harness: ps.harness, Site: site, Kind: kind, Msg: msg, Tag: ps.tag,
		Decisions: traceString(ps.trace)}
	m, strs, obs, ok := ps.model(extra...)
	if ok {
		v.Model, v.Strings, v.Observed = m, strs, obs
	} else {
		v.Msg += " [model unavailable]"
	}
	return v
}

// assert discharges an assertion on the current path.
func (ps *pathState) assert(site string, cond *Term) *Violation {
	ps.obligations++
	ps.sitesHit[site]++
	if cond.isTrue() {
		ps.discharged++
		ps.concreteOK++
		return nil
	}
	if cond.isFalse() {
		return ps.violation("assert", site, "assertion is false on this path")
	}
	neg := ps.tt.Not(cond)
	switch ps.solver.Check(neg) {
	case "unsat":
		ps.discharged++
		return nil
	case "sat":
		return ps.violation("assert", site, "assertion can be false", neg)
	}
	ps.unknowns = append(ps.unknowns, "assertion "+site)
	return nil
}

func traceString(t []decision) string {
	var sb strings.Builder
	for _, d := range t {
		if d.val != 0 {
			fmt.Fprintf(&sb, "(%d)", d.val)
		}
		if d.taken {
			sb.WriteByte('1')
		} else {
			sb.WriteByte('0')
		}
	}
	return sb.String()
}

func sortedKeys[V any](m map[string]V) []string {
	ks := make([]string, 0, len(m))
	for k := range m {
		ks = append(ks, k)
	}
	sort.Strings(ks)
	return ks
}
