package main

// Class-A intrinsics for the parts of the standard library that are body-less
// (assembly), unsafe- or reflection-based, or blocking (sync).

import (
	"go/token"
	"go/types"
	"math"
	"os"
	"strings"

	"golang.org/x/tools/go/ssa"
)

// nativeFunc is a callable engine closure (used for Swapper and the like).
type nativeFunc struct {
	name string
	f    func(fr *frame, args []value) value
}

// nativeObj wraps an opaque host value (regexp, etc.).
type nativeObj struct {
	v interface{}
}


func byteSlice(v value) []value {
	switch v := v.(type) {
	case []value:
		return v
	case string, symS:
		return strBytes(v)
	}
	panic(engErr("byteSlice of %T", v))
}

// indexOf returns the first index of needle in hay (symbolic-aware, forking).
func (i *interpreter) indexOf(hay, needle []value) int {
	tt := i.ps.tt
	n := len(needle)
	if n == 0 {
		return 0
	}
	for k := 0; k+n <= len(hay); k++ {
		if i.ps.branch(i.strEq(hay[k:k+n], needle)) {
			return k
		}
	}
	_ = tt
	return -1
}

func (i *interpreter) lastIndexOf(hay, needle []value) int {
	n := len(needle)
	if n == 0 {
		return len(hay)
	}
	for k := len(hay) - n; k >= 0; k-- {
		if i.ps.branch(i.strEq(hay[k:k+n], needle)) {
			return k
		}
	}
	return -1
}

func (i *interpreter) countOf(hay, needle []value) int {
	n := len(needle)
	if n == 0 {
		panic(engErr("countOf with empty needle")) // callers handle
	}
	c := 0
	for k := 0; k+n <= len(hay); {
		if i.ps.branch(i.strEq(hay[k:k+n], needle)) {
			c++
			k += n
		} else {
			k++
		}
	}
	return c
}

func init() {
	idx := func(fr *frame, args []value) value {
		return fr.i.indexOf(byteSlice(args[0]), byteSlice(args[1]))
	}
	idxByte := func(fr *frame, args []value) value {
		return fr.i.indexOf(byteSlice(args[0]), []value{args[1]})
	}
	lastIdxByte := func(fr *frame, args []value) value {
		return fr.i.lastIndexOf(byteSlice(args[0]), []value{args[1]})
	}
	for _, n := range []string{"strings.Index", "bytes.Index", "internal/bytealg.IndexString", "internal/bytealg.Index",
		"internal/stringslite.Index"} {
		intrinsics[n] = idx
	}
	for _, n := range []string{"strings.IndexByte", "bytes.IndexByte", "internal/bytealg.IndexByteString", "internal/bytealg.IndexByte",
		"internal/stringslite.IndexByte", "bytes.indexBytePortable"} {
		intrinsics[n] = idxByte
	}
	for _, n := range []string{"strings.LastIndexByte", "bytes.LastIndexByte", "internal/bytealg.LastIndexByteString", "internal/bytealg.LastIndexByte"} {
		intrinsics[n] = lastIdxByte
	}
	intrinsics["strings.LastIndex"] = func(fr *frame, args []value) value {
		return fr.i.lastIndexOf(byteSlice(args[0]), byteSlice(args[1]))
	}
	cnt := func(fr *frame, args []value) value {
		h, n := byteSlice(args[0]), byteSlice(args[1])
		if len(n) == 0 {
			// utf8.RuneCount + 1
			if _, ok := mkStr(h).(string); !ok {
				return len(h) + 1 // ASCII assumed for symbolic cells
			}
			return len([]rune(mkStr(h).(string))) + 1
		}
		return fr.i.countOf(h, n)
	}
	intrinsics["strings.Count"] = cnt
	intrinsics["bytes.Count"] = cnt
	cntByte := func(fr *frame, args []value) value {
		return fr.i.countOf(byteSlice(args[0]), []value{args[1]})
	}
	intrinsics["internal/bytealg.CountString"] = cntByte
	intrinsics["internal/bytealg.Count"] = cntByte
	eq := func(fr *frame, args []value) value {
		return wrapBool(fr.i.strEq(byteSlice(args[0]), byteSlice(args[1])))
	}
	intrinsics["bytes.Equal"] = eq
	intrinsics["internal/bytealg.Equal"] = eq
	cmp := func(fr *frame, args []value) value {
		a, b := byteSlice(args[0]), byteSlice(args[1])
		i := fr.i
		if i.ps.branch(i.strEq(a, b)) {
			return int(0)
		}
		if i.ps.branch(i.strLess(a, b, false)) {
			return int(-1)
		}
		return int(1)
	}
	intrinsics["bytes.Compare"] = cmp
	intrinsics["internal/bytealg.Compare"] = cmp
	intrinsics["strings.Compare"] = cmp
	intrinsics["internal/bytealg.CompareString"] = cmp
	intrinsics["internal/bytealg.MakeNoZero"] = func(fr *frame, args []value) value {
		n := int(asInt64(fr.i.concretize(args[0])))
		s := make([]value, n)
		for k := range s {
			s[k] = uint8(0)
		}
		return s
	}
	intrinsics["(*strings.Builder).String"] = func(fr *frame, args []value) value {
		p := args[0].(*value)
		if p == nil {
			fr.i.rtPanic("invalid memory address or nil pointer dereference")
		}
		st := (*p).(structure)
		buf, _ := st[1].([]value)
		return mkStr(buf)
	}
	intrinsics["(*strings.Builder).copyCheck"] = func(fr *frame, args []value) value { return nil }
	intrinsics["strings.Clone"] = func(fr *frame, args []value) value { return args[0] }
	intrinsics["internal/stringslite.Clone"] = func(fr *frame, args []value) value { return args[0] }
	intrinsics["(*bytes.Buffer).String"] = func(fr *frame, args []value) value {
		p := args[0].(*value)
		if p == nil {
			return "<nil>"
		}
		st := (*p).(structure)
		buf, _ := st[0].([]value)
		off := int(asInt64(st[1]))
		return mkStr(buf[off:])
	}
	intrinsics["internal/abi.NoEscape"] = func(fr *frame, args []value) value { return args[0] }
	intrinsics["internal/abi.Escape"] = func(fr *frame, args []value) value { return args[0] }
	intrinsics["internal/race.Enabled"] = func(fr *frame, args []value) value { return false }
	for _, n := range []string{"internal/race.Acquire", "internal/race.Release", "internal/race.ReleaseMerge", "internal/race.Disable",
		"internal/race.Enable", "internal/race.Read", "internal/race.Write", "internal/race.ReadRange", "internal/race.WriteRange",
		"runtime.KeepAlive", "runtime.SetFinalizer", "runtime.GC", "runtime.Gosched"} {
		intrinsics[n] = func(fr *frame, args []value) value { return nil }
	}

	// ---- os / runtime environment
	intrinsics["os.Getenv"] = func(fr *frame, args []value) value { return "" }
	intrinsics["os.LookupEnv"] = func(fr *frame, args []value) value { return tuple{"", false} }
	intrinsics["syscall.Getenv"] = func(fr *frame, args []value) value { return tuple{"", false} }
	intrinsics["os.Getpid"] = func(fr *frame, args []value) value { return int(4242) }
	// GODEBUG settings: none set (the real lookup goes through sync.Map's hash trie and abi type words)
	intrinsics["(*internal/godebug.Setting).Value"] = func(fr *frame, args []value) value { return "" }
	intrinsics["(*internal/godebug.Setting).IncNonDefault"] = func(fr *frame, args []value) value { return nil }
	intrinsics["math/rand.Seed"] = func(fr *frame, args []value) value { return nil }
	// the system random source is abstracted to a fixed stream (0x2a ...): callers that only need
	// an unpredictable name (temp files, FindChartInRepoURL's cache name) behave the same
	intrinsics["crypto/rand.Read"] = func(fr *frame, args []value) value {
		b, _ := args[0].([]value)
		for k := range b {
			b[k] = uint8(0x2a)
		}
		return tuple{len(b), iface{}}
	}
	// the global pseudo-random source is abstracted to its first admissible answer
	intrinsics["math/rand.Intn"] = func(fr *frame, args []value) value { return int(0) }
	intrinsics["math/rand.Int31n"] = func(fr *frame, args []value) value { return int32(0) }
	intrinsics["math/rand.Int63n"] = func(fr *frame, args []value) value { return int64(0) }
	intrinsics["runtime.Callers"] = func(fr *frame, args []value) value { return int(0) }
	intrinsics["runtime.Caller"] = func(fr *frame, args []value) value { return tuple{uintptr(0), "", int(0), false} }
	intrinsics["runtime/debug.ReadBuildInfo"] = func(fr *frame, args []value) value { return tuple{(*value)(nil), false} }
	intrinsics["runtime.GOMAXPROCS"] = func(fr *frame, args []value) value { return int(1) }
	intrinsics["runtime.NumCPU"] = func(fr *frame, args []value) value { return int(1) }
	intrinsics["os.Exit"] = func(fr *frame, args []value) value {
		panic(pathEnd{"violation-panic", "os.Exit called"})
	}

	// ---- math
	intrinsics["math.Float64bits"] = func(fr *frame, args []value) value { return math.Float64bits(args[0].(float64)) }
	intrinsics["math.Float64frombits"] = func(fr *frame, args []value) value { return math.Float64frombits(args[0].(uint64)) }
	intrinsics["math.Float32bits"] = func(fr *frame, args []value) value { return math.Float32bits(args[0].(float32)) }
	intrinsics["math.Float32frombits"] = func(fr *frame, args []value) value { return math.Float32frombits(args[0].(uint32)) }
	intrinsics["math.IsNaN"] = func(fr *frame, args []value) value { return math.IsNaN(args[0].(float64)) }
	intrinsics["math.IsInf"] = func(fr *frame, args []value) value {
		return math.IsInf(args[0].(float64), int(asInt64(args[1])))
	}
	intrinsics["math.Inf"] = func(fr *frame, args []value) value { return math.Inf(int(asInt64(args[0]))) }
	intrinsics["math.NaN"] = func(fr *frame, args []value) value { return math.NaN() }
	intrinsics["math.Abs"] = func(fr *frame, args []value) value { return math.Abs(args[0].(float64)) }
	intrinsics["math.Floor"] = func(fr *frame, args []value) value { return math.Floor(args[0].(float64)) }
	intrinsics["math.Ceil"] = func(fr *frame, args []value) value { return math.Ceil(args[0].(float64)) }
	intrinsics["math.Trunc"] = func(fr *frame, args []value) value { return math.Trunc(args[0].(float64)) }
	intrinsics["math.Pow"] = func(fr *frame, args []value) value { return math.Pow(args[0].(float64), args[1].(float64)) }
	intrinsics["math.Log"] = func(fr *frame, args []value) value { return math.Log(args[0].(float64)) }
	intrinsics["math.Sqrt"] = func(fr *frame, args []value) value { return math.Sqrt(args[0].(float64)) }

	// ---- time: a non-decreasing counter
	now := func(fr *frame, args []value) value {
		fr.i.timeCounter++
		// time.Time{wall, ext, loc}: no monotonic reading, ext = seconds since year 1
		const base = 63900000000 // some instant in 2025
		return structure{uint64(0), int64(base + fr.i.timeCounter), (*value)(nil)}
	}
	intrinsics["time.Now"] = now
	intrinsics["time.Sleep"] = func(fr *frame, args []value) value { return nil }
	intrinsics["time.runtimeNano"] = func(fr *frame, args []value) value { return int64(0) }
	intrinsics["time.AfterFunc"] = func(fr *frame, args []value) value {
		// timers never fire in the engine (timeouts are outside every claim)
		t := fr.fn.Signature.Results().At(0).Type()
		var cell value = zero(mustDeref(t))
		return &cell
	}
	intrinsics["(*time.Timer).Stop"] = func(fr *frame, args []value) value { return true }
	intrinsics["time.NewTimer"] = intrinsics["time.AfterFunc"]
	intrinsics["time.After"] = func(fr *frame, args []value) value { return &echan{cap: 1} }
	intrinsics["time.Tick"] = func(fr *frame, args []value) value { return &echan{cap: 1} }
	intrinsics["(*time.Location).get"] = func(fr *frame, args []value) value {
		p := args[0].(*value)
		if p == nil {
			return fr.i.globalAddr(fr.fn.Pkg.Var("utcLoc"))
		}
		return p
	}

	// ---- sync
	intrinsics["(*sync.Mutex).Lock"] = func(fr *frame, args []value) value {
		m := syncState(fr, args[0])
		fr.i.block(func() bool { return m.writer == 0 && m.readers == 0 }, "Mutex.Lock")
		m.writer = 1
		fr.i.sched.cur.held[m] = 2
		return nil
	}
	intrinsics["(*sync.Mutex).TryLock"] = func(fr *frame, args []value) value {
		m := syncState(fr, args[0])
		if m.writer == 0 {
			m.writer = 1
			fr.i.sched.cur.held[m] = 2
			return true
		}
		return false
	}
	intrinsics["(*sync.Mutex).Unlock"] = func(fr *frame, args []value) value {
		m := syncState(fr, args[0])
		if m.writer == 0 {
			panic(targetPanic{iface{fr.i.runtimeErrorString, "fatal error: sync: unlock of unlocked mutex"}})
		}
		m.writer = 0
		delete(fr.i.sched.cur.held, m)
		return nil
	}
	intrinsics["(*sync.RWMutex).Lock"] = intrinsics["(*sync.Mutex).Lock"]
	intrinsics["(*sync.RWMutex).Unlock"] = intrinsics["(*sync.Mutex).Unlock"]
	intrinsics["(*sync.RWMutex).RLock"] = func(fr *frame, args []value) value {
		m := syncState(fr, args[0])
		fr.i.block(func() bool { return m.writer == 0 }, "RWMutex.RLock")
		m.readers++
		fr.i.sched.cur.held[m] = 1
		return nil
	}
	intrinsics["(*sync.RWMutex).RUnlock"] = func(fr *frame, args []value) value {
		m := syncState(fr, args[0])
		if m.readers == 0 {
			panic(targetPanic{iface{fr.i.runtimeErrorString, "fatal error: sync: RUnlock of unlocked RWMutex"}})
		}
		m.readers--
		if fr.i.sched.cur.held[m] == 1 {
			delete(fr.i.sched.cur.held, m)
		}
		return nil
	}
	intrinsics["(*sync.WaitGroup).Add"] = func(fr *frame, args []value) value {
		m := syncState(fr, args[0])
		m.count += int(asInt64(args[1]))
		if m.count < 0 {
			panic(targetPanic{iface{fr.i.runtimeErrorString, "sync: negative WaitGroup counter"}})
		}
		return nil
	}
	intrinsics["(*sync.WaitGroup).Done"] = func(fr *frame, args []value) value {
		m := syncState(fr, args[0])
		fr.i.sched.cur.release(&m.vc)
		m.count--
		if m.count < 0 {
			panic(targetPanic{iface{fr.i.runtimeErrorString, "sync: negative WaitGroup counter"}})
		}
		return nil
	}
	intrinsics["(*sync.WaitGroup).Wait"] = func(fr *frame, args []value) value {
		m := syncState(fr, args[0])
		fr.i.block(func() bool { return m.count == 0 }, "WaitGroup.Wait")
		fr.i.sched.cur.acquire(m.vc)
		return nil
	}
	intrinsics["(*sync.WaitGroup).Go"] = nil
	delete(intrinsics, "(*sync.WaitGroup).Go")
	intrinsics["(*sync.Once).Do"] = func(fr *frame, args []value) value {
		m := syncState(fr, args[0])
		if m.count == 0 {
			m.count = 1
			call(fr.i, fr, token.NoPos, args[1], nil)
		}
		return nil
	}
	// sync.Map: go1.24's implementation is a hash trie over abi type words and atomics that the
	// executor cannot interpret; it is modelled by an association list with the documented
	// Load/Store/LoadOrStore/LoadAndDelete/Delete/Swap/Range/Clear contract. Key comparison is Go's
	// == on interfaces (symbolic keys fork the path per entry). Range visits in insertion order
	// (one admissible order; the real map's order is unspecified).
	smFind := func(fr *frame, m *syncSt, key value) int {
		for k := range m.keys {
			eq := fr.i.equalsT(nil, m.keys[k], key)
			if eq.isTrue() || (!eq.isFalse() && fr.i.ps.branch(eq)) {
				return k
			}
		}
		return -1
	}
	intrinsics["(*sync.Map).Load"] = func(fr *frame, args []value) value {
		m := syncState(fr, args[0])
		if k := smFind(fr, m, args[1]); k >= 0 {
			return tuple{m.vals[k], true}
		}
		return tuple{iface{}, false}
	}
	intrinsics["(*sync.Map).Store"] = func(fr *frame, args []value) value {
		m := syncState(fr, args[0])
		if k := smFind(fr, m, args[1]); k >= 0 {
			m.vals[k] = args[2]
			return nil
		}
		m.keys, m.vals = append(m.keys, args[1]), append(m.vals, args[2])
		return nil
	}
	intrinsics["(*sync.Map).Swap"] = func(fr *frame, args []value) value {
		m := syncState(fr, args[0])
		if k := smFind(fr, m, args[1]); k >= 0 {
			old := m.vals[k]
			m.vals[k] = args[2]
			return tuple{old, true}
		}
		m.keys, m.vals = append(m.keys, args[1]), append(m.vals, args[2])
		return tuple{iface{}, false}
	}
	intrinsics["(*sync.Map).LoadOrStore"] = func(fr *frame, args []value) value {
		m := syncState(fr, args[0])
		if k := smFind(fr, m, args[1]); k >= 0 {
			return tuple{m.vals[k], true}
		}
		m.keys, m.vals = append(m.keys, args[1]), append(m.vals, args[2])
		return tuple{args[2], false}
	}
	intrinsics["(*sync.Map).LoadAndDelete"] = func(fr *frame, args []value) value {
		m := syncState(fr, args[0])
		if k := smFind(fr, m, args[1]); k >= 0 {
			old := m.vals[k]
			m.keys = append(append([]value{}, m.keys[:k]...), m.keys[k+1:]...)
			m.vals = append(append([]value{}, m.vals[:k]...), m.vals[k+1:]...)
			return tuple{old, true}
		}
		return tuple{iface{}, false}
	}
	intrinsics["(*sync.Map).Delete"] = func(fr *frame, args []value) value {
		intrinsics["(*sync.Map).LoadAndDelete"](fr, args)
		return nil
	}
	intrinsics["(*sync.Map).Clear"] = func(fr *frame, args []value) value {
		m := syncState(fr, args[0])
		m.keys, m.vals = nil, nil
		return nil
	}
	intrinsics["(*sync.Map).Range"] = func(fr *frame, args []value) value {
		m := syncState(fr, args[0])
		keys, vals := append([]value{}, m.keys...), append([]value{}, m.vals...)
		for k := range keys {
			switch c := call(fr.i, fr, token.NoPos, args[1], []value{keys[k], vals[k]}).(type) {
			case bool:
				if !c {
					return nil
				}
			case symB:
				if !fr.i.ps.branch(c.t) {
					return nil
				}
			}
		}
		return nil
	}
	intrinsics["(*sync.Pool).Get"] = func(fr *frame, args []value) value {
		p := args[0].(*value)
		st := (*p).(structure)
		newf := st[len(st)-1]
		if f, ok := newf.(*ssa.Function); ok && f == nil {
			return iface{}
		}
		return call(fr.i, fr, token.NoPos, newf, nil)
	}
	intrinsics["(*sync.Pool).Put"] = func(fr *frame, args []value) value { return nil }

	// ---- sync/atomic on *value cells
	for _, ty := range []string{"Int32", "Int64", "Uint32", "Uint64", "Uintptr", "Pointer"} {
		intrinsics["sync/atomic.Load"+ty] = func(fr *frame, args []value) value { return *args[0].(*value) }
		intrinsics["sync/atomic.Store"+ty] = func(fr *frame, args []value) value { *args[0].(*value) = args[1]; return nil }
		intrinsics["sync/atomic.Swap"+ty] = func(fr *frame, args []value) value {
			p := args[0].(*value)
			old := *p
			*p = args[1]
			return old
		}
		intrinsics["sync/atomic.CompareAndSwap"+ty] = func(fr *frame, args []value) value {
			p := args[0].(*value)
			eq := fr.i.concretize(fr.i.equalsV(nil, *p, args[1])).(bool)
			if eq {
				*p = args[2]
			}
			return eq
		}
		if ty != "Pointer" {
			intrinsics["sync/atomic.Add"+ty] = func(fr *frame, args []value) value {
				p := args[0].(*value)
				*p = binop(fr.i, token.ADD, nil, *p, args[1])
				return *p
			}
		}
	}
	intrinsics["(*sync/atomic.Value).Load"] = func(fr *frame, args []value) value {
		st := (*args[0].(*value)).(structure)
		return st[0]
	}
	intrinsics["(*sync/atomic.Value).Store"] = func(fr *frame, args []value) value {
		st := (*args[0].(*value)).(structure)
		st[0] = args[1]
		return nil
	}

	// ---- sort.Slice family: run the real pdqsort with an engine-level swapper
	sortSlice := func(stable bool) handlerFn {
		return func(fr *frame, args []value) value {
			i := fr.i
			x := args[0].(iface)
			sl, _ := x.v.([]value)
			less := args[1]
			swap := &nativeFunc{name: "swapper", f: func(fr *frame, a []value) value {
				p, q := int(asInt64(a[0])), int(asInt64(a[1]))
				sl[p], sl[q] = sl[q], sl[p]
				return nil
			}}
			sortPkg := i.prog.ImportedPackage("sort")
			ls := structure{less, swap}
			n := len(sl)
			if stable {
				f := sortPkg.Func("stable_func")
				call(i, fr, token.NoPos, f, []value{ls, n})
			} else {
				f := sortPkg.Func("pdqsort_func")
				limit := 0
				for v := uint(n); v != 0; v >>= 1 {
					limit++
				}
				call(i, fr, token.NoPos, f, []value{ls, int(0), n, limit})
			}
			return nil
		}
	}
	intrinsics["sort.Slice"] = sortSlice(false)
	intrinsics["sort.SliceStable"] = sortSlice(true)

	intrinsics["reflect.DeepEqual"] = func(fr *frame, args []value) value {
		return wrapBool(fr.i.deepEqual(args[0], args[1], 0))
	}
	intrinsics["reflect.TypeOf"] = func(fr *frame, args []value) value {
		// only usable through the %T / equality paths the engine implements
		return iface{t: types.Typ[types.Int], v: rtype{args[0].(iface).t}}
	}
}

type syncSt struct {
	writer  int
	readers int
	count   int
	keys    []value // sync.Map model: association list (insertion order)
	vals    []value
	vc      vclock // WaitGroup: history published by Done
}

// syncState keeps the engine-side state of a sync primitive in the first field
// cell of the target object (which is otherwise unused by the engine).
func syncState(fr *frame, recv value) *syncSt {
	p := recv.(*value)
	if p == nil {
		fr.i.rtPanic("invalid memory address or nil pointer dereference")
	}
	st := (*p).(structure)
	if s, ok := st[0].(*syncSt); ok {
		return s
	}
	s := &syncSt{}
	st[0] = s
	return s
}

// deepEqual: structural equality in the sense of reflect.DeepEqual.
func (i *interpreter) deepEqual(x, y value, depth int) *Term {
	tt := i.ps.tt
	if depth > 50 {
		panic(engErr("deepEqual: too deep"))
	}
	switch x := x.(type) {
	case iface:
		yi, ok := y.(iface)
		if !ok {
			return tt.Bool(false)
		}
		if x.t == nil || yi.t == nil {
			return tt.Bool(x.t == nil && yi.t == nil)
		}
		if !types.Identical(x.t, yi.t) {
			return tt.Bool(false)
		}
		return i.deepEqual(x.v, yi.v, depth+1)
	case structure:
		ys, ok := y.(structure)
		if !ok || len(ys) != len(x) {
			return tt.Bool(false)
		}
		r := tt.Bool(true)
		for k := range x {
			r = tt.And(r, i.deepEqual(x[k], ys[k], depth+1))
			if r.isFalse() {
				return r
			}
		}
		return r
	case array:
		ya, ok := y.(array)
		if !ok || len(ya) != len(x) {
			return tt.Bool(false)
		}
		r := tt.Bool(true)
		for k := range x {
			r = tt.And(r, i.deepEqual(x[k], ya[k], depth+1))
		}
		return r
	case []value:
		ys, ok := y.([]value)
		if !ok || len(ys) != len(x) || (x == nil) != (ys == nil) {
			return tt.Bool(false)
		}
		r := tt.Bool(true)
		for k := range x {
			r = tt.And(r, i.deepEqual(x[k], ys[k], depth+1))
			if r.isFalse() {
				return r
			}
		}
		return r
	case *omap:
		ym, ok := y.(*omap)
		if !ok || (x == nil) != (ym == nil) || x.len() != ym.len() {
			return tt.Bool(false)
		}
		if x == ym {
			return tt.Bool(true)
		}
		r := tt.Bool(true)
		for _, e := range x.live() {
			v, found := ym.lookup(i, e.key)
			if !found {
				return tt.Bool(false)
			}
			r = tt.And(r, i.deepEqual(e.val, v, depth+1))
			if r.isFalse() {
				return r
			}
		}
		return r
	case *value:
		yp, ok := y.(*value)
		if !ok {
			return tt.Bool(false)
		}
		if x == yp {
			return tt.Bool(true)
		}
		if x == nil || yp == nil {
			return tt.Bool(false)
		}
		return i.deepEqual(*x, *yp, depth+1)
	case *ssa.Function:
		yf, ok := y.(*ssa.Function)
		return tt.Bool(ok && x == nil && yf == nil)
	case *closure, *nativeFunc:
		return tt.Bool(false)
	case *syncSt:
		return tt.Bool(true)
	case nil:
		return tt.Bool(y == nil)
	}
	if isSym(x) || isSym(y) {
		return i.equalsT(nil, x, y)
	}
	return i.equalsT(nil, x, y)
}

var _ = strings.HasPrefix
var _ = os.Getenv

// Environment abstractions of helm functions whose only job is to read the
// build/cluster environment through reflection-heavy registries. They are
// listed in every evidence file that used them.
func init() {
	intrinsics["helm.sh/helm/v4/pkg/chart/v2/util.allKnownVersions"] = func(fr *frame, args []value) value {
		// the real function enumerates client-go's scheme; the engine supplies a
		// fixed, representative set (capabilities are data for templates only)
		return []value{"v1", "apps/v1", "batch/v1", "apiextensions.k8s.io/v1", "apiextensions.k8s.io/v1beta1"}
	}
}

func init() {
	intrinsics["runtime.Version"] = func(fr *frame, args []value) value { return "go1.24.0" }
	intrinsics["flag.Lookup"] = func(fr *frame, args []value) value {
		// native replays run under `go test`, where test.* flags exist
		t := fr.fn.Signature.Results().At(0).Type()
		var cell value = zero(mustDeref(t))
		return &cell
	}
	intrinsics["syscall.runtime_envs"] = func(fr *frame, args []value) value { return []value(nil) }
	intrinsics["os.runtime_args"] = func(fr *frame, args []value) value { return []value{"gosym"} }
	intrinsics["os.NewFile"] = func(fr *frame, args []value) value {
		t := fr.fn.Signature.Results().At(0).Type()
		var cell value = zero(mustDeref(t))
		return &cell
	}
}

func init() {
	// every raw system call fails with ENOSYS: the engine has no OS underneath
	intrinsics["internal/runtime/syscall.Syscall6"] = func(fr *frame, args []value) value {
		return tuple{uintptr(0), uintptr(0), uintptr(38)}
	}
	intrinsics["syscall.runtime_entersyscall"] = func(fr *frame, args []value) value { return nil }
	intrinsics["syscall.runtime_exitsyscall"] = func(fr *frame, args []value) value { return nil }
}

// copystructure.Copy: reflection-based deep copy, re-implemented structurally.
func init() {
	intrinsics["github.com/mitchellh/copystructure.Copy"] = func(fr *frame, args []value) value {
		memo := map[*value]*value{}
		return tuple{deepCopyValue(fr.i, args[0], memo), iface{}}
	}
}

func deepCopyValue(i *interpreter, v value, memo map[*value]*value) value {
	switch v := v.(type) {
	case iface:
		if v.t == nil {
			return v
		}
		return iface{v.t, deepCopyValue(i, v.v, memo)}
	case *omap:
		if v == nil {
			return v
		}
		c := newOmap(v.keyT)
		for _, e := range v.live() {
			c.insert(i, deepCopyValue(i, e.key, memo), deepCopyValue(i, e.val, memo))
		}
		return c
	case []value:
		if v == nil {
			return v
		}
		c := make([]value, len(v))
		for k := range v {
			c[k] = deepCopyValue(i, v[k], memo)
		}
		return c
	case structure:
		c := make(structure, len(v))
		for k := range v {
			c[k] = deepCopyValue(i, v[k], memo)
		}
		return c
	case array:
		c := make(array, len(v))
		for k := range v {
			c[k] = deepCopyValue(i, v[k], memo)
		}
		return c
	case *value:
		if v == nil {
			return v
		}
		if c, ok := memo[v]; ok {
			return c
		}
		c := new(value)
		memo[v] = c
		*c = deepCopyValue(i, *v, memo)
		return c
	}
	return v
}
