package main

// Concolic fall-back for YAML/JSON decoding of CONCRETE documents: the bytes are
// parsed natively (the real sigs.k8s.io/yaml, i.e. yaml -> JSON -> generic
// value) and the generic value is decoded into the engine value of the target
// Go type following the json struct tags, as encoding/json does. A document
// with symbolic bytes is an engine error (harnesses cut those calls instead).

import (
	"encoding/json"
	"go/types"
	"reflect"
	"strings"

	"sigs.k8s.io/yaml"
)

func init() {
	unm := func(strict bool) handlerFn {
		return func(fr *frame, args []value) value {
			data, ok := mkStr(args[0].([]value)).(string)
			if !ok {
				panic(engErr("yaml/json Unmarshal of a document with symbolic bytes (cut this call in the harness)"))
			}
			target := args[1].(iface)
			if target.t == nil {
				return fr.i.mkError("json: Unmarshal(nil)")
			}
			pt, ok := target.t.Underlying().(*types.Pointer)
			p, _ := target.v.(*value)
			if !ok || p == nil {
				return fr.i.mkError("json: Unmarshal(non-pointer " + target.t.String() + ")")
			}
			var gen interface{}
			var err error
			if strict {
				// strictness (unknown fields / duplicate keys) is checked by decoding
				// into the generic form only: duplicate keys are caught, unknown
				// fields are not (stated abstraction)
				jb, e := yaml.YAMLToJSONStrict([]byte(data))
				if e != nil {
					return fr.i.mkError("error converting YAML to JSON: " + e.Error())
				}
				err = json.Unmarshal(jb, &gen)
			} else {
				jb, e := yaml.YAMLToJSON([]byte(data))
				if e != nil {
					return fr.i.mkError("error converting YAML to JSON: " + e.Error())
				}
				dec := json.NewDecoder(strings.NewReader(string(jb)))
				err = dec.Decode(&gen)
			}
			if err != nil {
				return fr.i.mkError("error unmarshaling JSON: " + err.Error())
			}
			if e := fr.i.decodeInto(pt.Elem(), p, gen); e != "" {
				return fr.i.mkError("error unmarshaling JSON: while decoding JSON: " + e)
			}
			return iface{}
		}
	}
	intrinsics["sigs.k8s.io/yaml.Unmarshal"] = unm(false)
	intrinsics["sigs.k8s.io/yaml.UnmarshalStrict"] = unm(true)
	intrinsics["encoding/json.Unmarshal"] = func(fr *frame, args []value) value {
		return unm(false)(fr, []value{args[0], args[1]})
	}
	intrinsics["encoding/json.Valid"] = func(fr *frame, args []value) value {
		data, ok := mkStr(args[0].([]value)).(string)
		if !ok {
			panic(engErr("json.Valid of symbolic bytes"))
		}
		return json.Valid([]byte(data))
	}
}

func jsonFieldName(f *types.Var, tag string) (name string, skip bool) {
	st := reflect.StructTag(tag)
	j, ok := st.Lookup("json")
	if ok {
		if j == "-" {
			return "", true
		}
		if k := strings.Index(j, ","); k >= 0 {
			j = j[:k]
		}
		if j != "" {
			return j, false
		}
	}
	return f.Name(), false
}

// decodeInto stores the generic JSON value g into *addr of static type t.
// Returns "" or an error message.
func (i *interpreter) decodeInto(t types.Type, addr *value, g interface{}) string {
	if g == nil {
		// JSON null: zero the target for pointers/maps/slices/interfaces, no-op otherwise
		switch t.Underlying().(type) {
		case *types.Pointer, *types.Map, *types.Slice, *types.Interface:
			*addr = zero(t)
		}
		return ""
	}
	switch u := t.Underlying().(type) {
	case *types.Pointer:
		p, _ := (*addr).(*value)
		if p == nil {
			cell := zero(u.Elem())
			p = &cell
			*addr = p
		}
		return i.decodeInto(u.Elem(), p, g)
	case *types.Interface:
		if u.NumMethods() != 0 {
			return "cannot unmarshal into non-empty interface " + t.String()
		}
		*addr = i.genericValue(g)
		return ""
	case *types.Struct:
		m, ok := g.(map[string]interface{})
		if !ok {
			return "cannot unmarshal " + jsonKind(g) + " into Go value of type " + t.String()
		}
		st := (*addr).(structure)
		return i.decodeStruct(u, st, m)
	case *types.Map:
		m, ok := g.(map[string]interface{})
		if !ok {
			return "cannot unmarshal " + jsonKind(g) + " into Go value of type " + t.String()
		}
		om, _ := (*addr).(*omap)
		if om == nil {
			om = newOmap(u.Key())
			*addr = om
		}
		for _, k := range sortedKeys(m) {
			cell := zero(u.Elem())
			if e := i.decodeInto(u.Elem(), &cell, m[k]); e != "" {
				return e
			}
			om.insert(i, k, cell)
		}
		return ""
	case *types.Slice:
		if b, ok := u.Elem().Underlying().(*types.Basic); ok && b.Kind() == types.Uint8 {
			panic(engErr("engine decoder: []byte targets are not supported"))
		}
		l, ok := g.([]interface{})
		if !ok {
			return "cannot unmarshal " + jsonKind(g) + " into Go value of type " + t.String()
		}
		out := make([]value, len(l))
		for k := range l {
			out[k] = zero(u.Elem())
			if e := i.decodeInto(u.Elem(), &out[k], l[k]); e != "" {
				return e
			}
		}
		*addr = out
		return ""
	case *types.Basic:
		switch {
		case u.Info()&types.IsString != 0:
			s, ok := g.(string)
			if !ok {
				return "cannot unmarshal " + jsonKind(g) + " into Go value of type " + t.String()
			}
			*addr = s
			return ""
		case u.Info()&types.IsBoolean != 0:
			b, ok := g.(bool)
			if !ok {
				return "cannot unmarshal " + jsonKind(g) + " into Go value of type " + t.String()
			}
			*addr = b
			return ""
		case u.Info()&types.IsInteger != 0:
			f, ok := g.(float64)
			if !ok || f != float64(int64(f)) {
				return "cannot unmarshal " + jsonKind(g) + " into Go value of type " + t.String()
			}
			*addr = mkInt(u.Kind(), uint64(int64(f)))
			return ""
		case u.Info()&types.IsFloat != 0:
			f, ok := g.(float64)
			if !ok {
				return "cannot unmarshal " + jsonKind(g) + " into Go value of type " + t.String()
			}
			if u.Kind() == types.Float32 {
				*addr = float32(f)
			} else {
				*addr = f
			}
			return ""
		}
	}
	panic(engErr("engine decoder: unsupported target type %s", t))
}

func (i *interpreter) decodeStruct(u *types.Struct, st structure, m map[string]interface{}) string {
	for k := 0; k < u.NumFields(); k++ {
		f := u.Field(k)
		if !f.Exported() && !f.Embedded() {
			continue
		}
		name, skip := jsonFieldName(f, u.Tag(k))
		if skip {
			continue
		}
		if f.Embedded() && !tagStr(reflect.StructTag(u.Tag(k)).Get("json")).hasName() {
			// embedded struct (or pointer to struct) without a json name: fields are promoted
			ft := f.Type()
			if p, ok := ft.Underlying().(*types.Pointer); ok {
				es, ok := p.Elem().Underlying().(*types.Struct)
				if !ok {
					continue
				}
				if !anyFieldPresent(es, m) {
					continue
				}
				pv, _ := st[k].(*value)
				if pv == nil {
					cell := zero(p.Elem())
					pv = &cell
					st[k] = pv
				}
				if e := i.decodeStruct(es, (*pv).(structure), m); e != "" {
					return e
				}
				continue
			}
			if es, ok := ft.Underlying().(*types.Struct); ok {
				if e := i.decodeStruct(es, st[k].(structure), m); e != "" {
					return e
				}
				continue
			}
		}
		g, present := m[name]
		if !present {
			// encoding/json matches field names case-insensitively
			for mk, mv := range m {
				if strings.EqualFold(mk, name) {
					g, present = mv, true
					break
				}
			}
		}
		if !present {
			continue
		}
		if e := i.decodeInto(f.Type(), &st[k], g); e != "" {
			return e
		}
	}
	return ""
}

type tagStr string

func (t tagStr) hasName() bool {
	s := string(t)
	if k := strings.Index(s, ","); k >= 0 {
		s = s[:k]
	}
	return s != ""
}

func anyFieldPresent(es *types.Struct, m map[string]interface{}) bool {
	for k := 0; k < es.NumFields(); k++ {
		name, skip := jsonFieldName(es.Field(k), es.Tag(k))
		if skip {
			continue
		}
		for mk := range m {
			if strings.EqualFold(mk, name) {
				return true
			}
		}
	}
	return false
}

func jsonKind(g interface{}) string {
	switch g.(type) {
	case map[string]interface{}:
		return "object"
	case []interface{}:
		return "array"
	case string:
		return "string"
	case float64:
		return "number"
	case bool:
		return "bool"
	}
	return "null"
}

var (
	anyType      = types.NewInterfaceType(nil, nil).Complete()
	mapStrAny    = types.NewMap(types.Typ[types.String], anyType)
	sliceAny     = types.NewSlice(anyType)
)

// genericValue builds the engine value of a decoded interface{}.
func (i *interpreter) genericValue(g interface{}) value {
	switch g := g.(type) {
	case nil:
		return iface{}
	case string:
		return iface{types.Typ[types.String], g}
	case bool:
		return iface{types.Typ[types.Bool], g}
	case float64:
		return iface{types.Typ[types.Float64], g}
	case map[string]interface{}:
		om := newOmap(types.Typ[types.String])
		for _, k := range sortedKeys(g) {
			om.insert(i, k, i.genericValue(g[k]))
		}
		return iface{mapStrAny, om}
	case []interface{}:
		out := make([]value, len(g))
		for k := range g {
			out[k] = i.genericValue(g[k])
		}
		return iface{sliceAny, out}
	}
	panic(engErr("genericValue of %T", g))
}

// ---- Marshal: engine value -> generic -> real yaml/json encoder

func init() {
	intrinsics["sigs.k8s.io/yaml.Marshal"] = func(fr *frame, args []value) value {
		g, e := fr.i.toGeneric(fr, args[0].(iface).t, args[0].(iface).v, 0)
		if e != "" {
			if strings.HasPrefix(e, "engine encoder:") {
				panic(engErr("yaml.Marshal: %s", e)) // an engine limitation is never a program error
			}
			return tuple{[]value(nil), fr.i.mkError(e)}
		}
		jb, err := json.Marshal(g)
		if err != nil {
			return tuple{[]value(nil), fr.i.mkError(err.Error())}
		}
		yb, err := yaml.JSONToYAML(jb)
		if err != nil {
			return tuple{[]value(nil), fr.i.mkError(err.Error())}
		}
		return tuple{bytesOf(string(yb)), iface{}}
	}
	intrinsics["encoding/json.Marshal"] = func(fr *frame, args []value) value {
		g, e := fr.i.toGeneric(fr, args[0].(iface).t, args[0].(iface).v, 0)
		if e != "" {
			if strings.HasPrefix(e, "engine encoder:") {
				panic(engErr("json.Marshal: %s", e))
			}
			return tuple{[]value(nil), fr.i.mkError(e)}
		}
		jb, err := json.Marshal(g)
		if err != nil {
			return tuple{[]value(nil), fr.i.mkError(err.Error())}
		}
		return tuple{bytesOf(string(jb)), iface{}}
	}
}

type omitted struct{}

func isEmptyValue(v value) bool {
	switch v := v.(type) {
	case bool:
		return !v
	case string:
		return v == ""
	case *value:
		return v == nil
	case []value:
		return len(v) == 0
	case *omap:
		return v.len() == 0
	case iface:
		return v.t == nil
	case float64:
		return v == 0
	case float32:
		return v == 0
	}
	if _, ok := kindOf(v); ok {
		if _, sym := v.(symI); sym {
			return false
		}
		return asInt64(v) == 0
	}
	return false
}

// toGeneric converts an engine value of static type t into the generic form the
// real encoder accepts. Symbolic leaves are an engine error.
func (i *interpreter) toGeneric(fr *frame, t types.Type, v value, depth int) (interface{}, string) {
	if depth > 40 {
		return nil, "engine encoder: too deep"
	}
	if t == nil {
		return nil, ""
	}
	// custom marshalers (metav1.Time and friends)
	if _, isItf := t.Underlying().(*types.Interface); !isItf {
		if hasMethod(i, t, "MarshalJSON", 0, "") || hasMarshalJSON(i, t) {
			if p, ok := v.(*value); ok && p == nil {
				return nil, ""
			}
			r, ok := i.callMethod(fr, t, v, "MarshalJSON")
			if ok {
				tup := r.(tuple)
				if e := tup[1].(iface); e.t != nil {
					return nil, "MarshalJSON failed"
				}
				s, conc := mkStr(tup[0].([]value)).(string)
				if !conc {
					return nil, "engine encoder: symbolic MarshalJSON output"
				}
				var g interface{}
				if err := json.Unmarshal([]byte(s), &g); err != nil {
					return nil, err.Error()
				}
				return g, ""
			}
		}
	}
	switch u := t.Underlying().(type) {
	case *types.Basic:
		if isSym(v) {
			return nil, "engine encoder: symbolic scalar (cut this Marshal call in the harness)"
		}
		switch x := v.(type) {
		case string:
			return x, ""
		case bool:
			return x, ""
		case float64:
			return x, ""
		case float32:
			return float64(x), ""
		}
		if k, ok := kindOf(v); ok {
			if kindSigned(k) {
				return asInt64(v), ""
			}
			return uint64(asInt64(v)), ""
		}
	case *types.Pointer:
		p, _ := v.(*value)
		if p == nil {
			return nil, ""
		}
		return i.toGeneric(fr, u.Elem(), *p, depth+1)
	case *types.Interface:
		itf := v.(iface)
		if itf.t == nil {
			return nil, ""
		}
		return i.toGeneric(fr, itf.t, itf.v, depth+1)
	case *types.Slice:
		sl, _ := v.([]value)
		if sl == nil {
			return nil, ""
		}
		if b, ok := u.Elem().Underlying().(*types.Basic); ok && b.Kind() == types.Uint8 {
			s, conc := mkStr(sl).(string)
			if !conc {
				return nil, "engine encoder: symbolic bytes"
			}
			return []byte(s), ""
		}
		out := make([]interface{}, len(sl))
		for k := range sl {
			g, e := i.toGeneric(fr, u.Elem(), sl[k], depth+1)
			if e != "" {
				return nil, e
			}
			out[k] = g
		}
		return out, ""
	case *types.Map:
		m, _ := v.(*omap)
		if m == nil {
			return nil, ""
		}
		out := map[string]interface{}{}
		for _, e := range m.live() {
			ks, ok := e.key.(string)
			if !ok {
				return nil, "engine encoder: non-string or symbolic map key"
			}
			g, er := i.toGeneric(fr, u.Elem(), e.val, depth+1)
			if er != "" {
				return nil, er
			}
			out[ks] = g
		}
		return out, ""
	case *types.Struct:
		out := map[string]interface{}{}
		if e := i.structToGeneric(fr, u, v.(structure), out, depth); e != "" {
			return nil, e
		}
		return out, ""
	}
	return nil, "engine encoder: unsupported type " + t.String()
}

func hasMarshalJSON(i *interpreter, t types.Type) bool {
	ms := i.prog.MethodSets.MethodSet(t)
	for k := 0; k < ms.Len(); k++ {
		if ms.At(k).Obj().Name() == "MarshalJSON" {
			return true
		}
	}
	return false
}

func (i *interpreter) structToGeneric(fr *frame, u *types.Struct, st structure, out map[string]interface{}, depth int) string {
	for k := 0; k < u.NumFields(); k++ {
		f := u.Field(k)
		if !f.Exported() && !f.Embedded() {
			continue
		}
		tag := reflect.StructTag(u.Tag(k)).Get("json")
		if tag == "-" {
			continue
		}
		name, opts := tag, ""
		if c := strings.Index(tag, ","); c >= 0 {
			name, opts = tag[:c], tag[c+1:]
		}
		if f.Embedded() && name == "" {
			ft := f.Type()
			if p, ok := ft.Underlying().(*types.Pointer); ok {
				pv, _ := st[k].(*value)
				if pv == nil {
					continue
				}
				if es, ok := p.Elem().Underlying().(*types.Struct); ok {
					if e := i.structToGeneric(fr, es, (*pv).(structure), out, depth+1); e != "" {
						return e
					}
					continue
				}
			} else if es, ok := ft.Underlying().(*types.Struct); ok && !hasMarshalJSON(i, ft) {
				if e := i.structToGeneric(fr, es, st[k].(structure), out, depth+1); e != "" {
					return e
				}
				continue
			}
		}
		if name == "" {
			name = f.Name()
		}
		if strings.Contains(opts, "omitempty") && isEmptyValue(st[k]) {
			continue
		}
		g, e := i.toGeneric(fr, f.Type(), st[k], depth+1)
		if e != "" {
			return e
		}
		out[name] = g
	}
	return ""
}

// (*json.Decoder).Decode on a concrete stream: the remaining input is drained
// from the underlying reader, the first JSON value is decoded natively and the
// consumed length is recorded so that the real InputOffset() works.
func init() {
	intrinsics["(*encoding/json.Decoder).Decode"] = func(fr *frame, args []value) value {
		i := fr.i
		dp := args[0].(*value)
		st := (*dp).(structure)
		dt := mustDeref(fr.fn.Signature.Recv().Type()).Underlying().(*types.Struct)
		field := func(name string) int {
			for k := 0; k < dt.NumFields(); k++ {
				if dt.Field(k).Name() == name {
					return k
				}
			}
			panic(engErr("json.Decoder has no field %s", name))
		}
		// pending input: what earlier Decode calls left over, else drain the reader
		pend, _ := st[field("buf")].([]value)
		if pend == nil {
			r := st[field("r")].(iface)
			var all []value
			for n := 0; n < 10000; n++ {
				buf := make([]value, 512)
				for k := range buf {
					buf[k] = uint8(0)
				}
				res, ok := i.callMethod(fr, r.t, r.v, "Read", buf)
				if !ok {
					panic(engErr("json.Decoder: reader without Read"))
				}
				tup := res.(tuple)
				cnt := int(asInt64(tup[0]))
				all = append(all, buf[:cnt]...)
				if e := tup[1].(iface); e.t != nil || cnt == 0 {
					break
				}
			}
			pend = all
		}
		data, conc := mkStr(pend).(string)
		if !conc {
			panic(engErr("json.Decoder.Decode on symbolic bytes (cut this call in the harness)"))
		}
		consumedBefore := asInt64(st[field("scanned")])
		dec := json.NewDecoder(strings.NewReader(data))
		var gen interface{}
		if err := dec.Decode(&gen); err != nil {
			return i.mkError(err.Error())
		}
		off := dec.InputOffset()
		st[field("buf")] = bytesOf(data[off:])
		st[field("scanp")] = int(0)
		st[field("scanned")] = consumedBefore + off
		target := args[1].(iface)
		pt, ok := target.t.Underlying().(*types.Pointer)
		p, _ := target.v.(*value)
		if !ok || p == nil {
			return i.mkError("json: Unmarshal(non-pointer)")
		}
		if e := i.decodeInto(pt.Elem(), p, gen); e != "" {
			return i.mkError("json: " + e)
		}
		return iface{}
	}
}
