package main

// Lockset data-race detection (Eraser discipline) over the target's heap cells
// and maps, for harnesses that switch it on with ndRace(<package path prefix>).
// Only accesses made by code of the named package(s) — not by the harness — are
// recorded. A location is a heap cell (field granularity: FieldAddr yields the
// field's own cell) or a whole map. States: virgin → exclusive(g) → shared /
// shared-modified; from the first access by a second goroutine on, the
// candidate lockset is intersected with the locks the accessing goroutine holds
// (read-held locks count for reads only); shared-modified with an empty lockset
// is reported. Ownership passes on without a report when the previous owner's
// accesses happen-before the new goroutine's through fork/join-style edges only
// (go statement, WaitGroup Done→Wait, channel send→receive), tracked with
// vector clocks; mutex hand-overs deliberately create NO happens-before edge, so
// that an unlocked access racing with a locked one is reported whatever
// schedule happened to be explored.

import (
	"fmt"
	"go/token"
	"strings"
)

type vclock map[int]int

func (a vclock) join(b vclock) {
	for k, v := range b {
		if v > a[k] {
			a[k] = v
		}
	}
}
func (a vclock) copy() vclock {
	c := vclock{}
	for k, v := range a {
		c[k] = v
	}
	return c
}

type raceLoc struct {
	state    int // 0 virgin, 1 exclusive, 2 shared, 3 shared-modified
	owner    *gor
	ownerClk int // the owner's own clock at its last access
	lastSeq  int
	locks    map[*syncSt]bool
	lastW    string
	lastWG   int
	lastA    string
	lastAG   int
	reported bool
}

type raceDet struct {
	prefix []string
	locs   map[interface{}]*raceLoc
	seq    int
}

func (i *interpreter) raceOn(prefix string) {
	if prefix == "" {
		i.race = nil
		return
	}
	i.race = &raceDet{prefix: strings.Split(prefix, ","), locs: map[interface{}]*raceLoc{}}
}

// release: the current goroutine publishes its history into a sync object's clock
func (g *gor) release(into *vclock) {
	if *into == nil {
		*into = vclock{}
	}
	into.join(g.vc)
	g.vc[g.id]++
}

// acquire: the current goroutine learns the history published into a sync object
func (g *gor) acquire(from vclock) {
	if from != nil {
		g.vc.join(from)
	}
}

func (i *interpreter) raceAccess(fr *frame, key interface{}, write bool, pos token.Pos) {
	rd := i.race
	if rd == nil || fr == nil || fr.fn == nil || fr.fn.Pkg == nil {
		return
	}
	pp := fr.fn.Pkg.Pkg.Path()
	ok := false
	for _, p := range rd.prefix {
		if strings.HasPrefix(pp, p) {
			ok = true
		}
	}
	if !ok {
		return
	}
	where := i.prog.Fset.Position(pos).String()
	if strings.Contains(where, "zz_verif_") {
		return // harness code
	}
	g := i.sched.cur
	rd.seq++
	l := rd.locs[key]
	if l == nil {
		l = &raceLoc{}
		rd.locs[key] = l
	}
	held := func() map[*syncSt]bool {
		m := map[*syncSt]bool{}
		for s, mode := range g.held {
			if mode == 2 || !write {
				m[s] = true
			}
		}
		return m
	}
	note := func() {
		l.lastSeq = rd.seq
		if l.state == 1 && l.owner == g {
			l.ownerClk = g.vc[g.id]
		}
		if write {
			l.lastW, l.lastWG = where, g.id
		}
		l.lastA, l.lastAG = where, g.id
	}
	switch l.state {
	case 0:
		l.state, l.owner = 1, g
		l.locks = held()
		note()
		return
	case 1:
		if l.owner == g {
			// while exclusive, remember which locks protected EVERY access of the owner
			h := held()
			for s := range l.locks {
				if !h[s] {
					delete(l.locks, s)
				}
			}
			note()
			return
		}
		// ordered hand-over: everything the owner did to this location happens-before now
		if g.vc[l.owner.id] >= l.ownerClk {
			l.owner = g
			l.locks = held()
			note()
			return
		}
		h := held()
		for s := range l.locks {
			if !h[s] {
				delete(l.locks, s)
			}
		}
		if write || l.lastW != "" {
			l.state = 3
		} else {
			l.state = 2
		}
	default:
		h := held()
		for s := range l.locks {
			if !h[s] {
				delete(l.locks, s)
			}
		}
		if write {
			l.state = 3
		}
	}
	if l.state == 3 && len(l.locks) == 0 && !l.reported {
		l.reported = true
		prevW, prevG := l.lastW, l.lastWG
		if prevW == "" || prevG == g.id {
			prevW, prevG = l.lastA, l.lastAG
		}
		kind := "read"
		if write {
			kind = "write"
		}
		panic(pathEnd{"violation-race", fmt.Sprintf("data race: %s at %s by goroutine %d and access at %s by goroutine %d share no lock", kind, where, g.id, prevW, prevG)})
	}
	note()
}
