package main

// Concolic fall-back for regexp: compiled expressions are opaque host objects;
// methods on fully concrete arguments call the real library; MatchString on a
// symbolic string simulates the compiled regexp/syntax program (Thompson NFA)
// over the byte cells and yields one Boolean term.

import (
	"go/types"
	"regexp"
	"regexp/syntax"
	"sort"
	"unicode"
)

func typesPtr(t types.Type) types.Type { return types.NewPointer(t) }

func nativePtr(v interface{}) value {
	var cell value = &nativeObj{v}
	return &cell
}

func nativeOf(fr *frame, v value) interface{} {
	p, ok := v.(*value)
	if !ok || p == nil {
		fr.i.rtPanic("invalid memory address or nil pointer dereference")
	}
	n, ok := (*p).(*nativeObj)
	if !ok {
		panic(engErr("expected native object, got %T", *p))
	}
	return n.v
}

func strSliceVal(ss []string) value {
	if ss == nil {
		return []value(nil)
	}
	out := make([]value, len(ss))
	for k, s := range ss {
		out[k] = s
	}
	return out
}

func init() {
	intrinsics["regexp.MustCompile"] = func(fr *frame, args []value) value {
		re, err := regexp.Compile(concStr(fr, args[0]))
		if err != nil {
			panic(targetPanic{iface{fr.i.runtimeErrorString, "regexp: Compile: " + err.Error()}})
		}
		return nativePtr(re)
	}
	intrinsics["regexp.Compile"] = func(fr *frame, args []value) value {
		re, err := regexp.Compile(concStr(fr, args[0]))
		if err != nil {
			return tuple{(*value)(nil), fr.i.mkError(err.Error())}
		}
		return tuple{nativePtr(re), iface{}}
	}
	intrinsics["regexp.MatchString"] = func(fr *frame, args []value) value {
		re, err := regexp.Compile(concStr(fr, args[0]))
		if err != nil {
			return tuple{false, fr.i.mkError(err.Error())}
		}
		return tuple{fr.i.reMatch(re, args[1]), iface{}}
	}
	intrinsics["(*regexp.Regexp).MatchString"] = func(fr *frame, args []value) value {
		return fr.i.reMatch(nativeOf(fr, args[0]).(*regexp.Regexp), args[1])
	}
	intrinsics["(*regexp.Regexp).Match"] = func(fr *frame, args []value) value {
		return fr.i.reMatch(nativeOf(fr, args[0]).(*regexp.Regexp), mkStr(args[1].([]value)))
	}
	intrinsics["(*regexp.Regexp).String"] = func(fr *frame, args []value) value {
		return nativeOf(fr, args[0]).(*regexp.Regexp).String()
	}
	intrinsics["(*regexp.Regexp).FindStringSubmatch"] = func(fr *frame, args []value) value {
		return strSliceVal(nativeOf(fr, args[0]).(*regexp.Regexp).FindStringSubmatch(concStr(fr, args[1])))
	}
	intrinsics["(*regexp.Regexp).FindString"] = func(fr *frame, args []value) value {
		return nativeOf(fr, args[0]).(*regexp.Regexp).FindString(concStr(fr, args[1]))
	}
	intrinsics["(*regexp.Regexp).FindAllString"] = func(fr *frame, args []value) value {
		return strSliceVal(nativeOf(fr, args[0]).(*regexp.Regexp).FindAllString(concStr(fr, args[1]), int(asInt64(args[2]))))
	}
	intrinsics["(*regexp.Regexp).FindAllStringSubmatch"] = func(fr *frame, args []value) value {
		r := nativeOf(fr, args[0]).(*regexp.Regexp).FindAllStringSubmatch(concStr(fr, args[1]), int(asInt64(args[2])))
		if r == nil {
			return []value(nil)
		}
		out := make([]value, len(r))
		for k := range r {
			out[k] = strSliceVal(r[k])
		}
		return out
	}
	intrinsics["(*regexp.Regexp).FindStringIndex"] = func(fr *frame, args []value) value {
		r := nativeOf(fr, args[0]).(*regexp.Regexp).FindStringIndex(concStr(fr, args[1]))
		if r == nil {
			return []value(nil)
		}
		return []value{r[0], r[1]}
	}
	intrinsics["(*regexp.Regexp).ReplaceAllString"] = func(fr *frame, args []value) value {
		return nativeOf(fr, args[0]).(*regexp.Regexp).ReplaceAllString(concStr(fr, args[1]), concStr(fr, args[2]))
	}
	intrinsics["(*regexp.Regexp).ReplaceAllLiteralString"] = func(fr *frame, args []value) value {
		return nativeOf(fr, args[0]).(*regexp.Regexp).ReplaceAllLiteralString(concStr(fr, args[1]), concStr(fr, args[2]))
	}
	intrinsics["(*regexp.Regexp).Split"] = func(fr *frame, args []value) value {
		return strSliceVal(nativeOf(fr, args[0]).(*regexp.Regexp).Split(concStr(fr, args[1]), int(asInt64(args[2]))))
	}
	intrinsics["(*regexp.Regexp).SubexpNames"] = func(fr *frame, args []value) value {
		return strSliceVal(nativeOf(fr, args[0]).(*regexp.Regexp).SubexpNames())
	}
	intrinsics["(*regexp.Regexp).NumSubexp"] = func(fr *frame, args []value) value {
		return nativeOf(fr, args[0]).(*regexp.Regexp).NumSubexp()
	}
	intrinsics["regexp.QuoteMeta"] = func(fr *frame, args []value) value {
		return regexp.QuoteMeta(concStr(fr, args[0]))
	}
}

// mkError builds an *errors.errorString value.
func (i *interpreter) mkError(msg string) value {
	ep := i.prog.ImportedPackage("errors")
	et := ep.Type("errorString").Object().Type()
	var cell value = structure{msg}
	return iface{typesPtr(et), &cell}
}

func (i *interpreter) reMatch(re *regexp.Regexp, s value) value {
	switch s := s.(type) {
	case string:
		return re.MatchString(s)
	case symS:
		return wrapBool(i.nfaMatch(re.String(), s.b))
	}
	panic(engErr("reMatch of %T", s))
}

// nfaMatch builds the term "the regexp matches somewhere in b" (unanchored, as
// MatchString) by simulating the compiled program over the byte cells.
// Symbolic cells are assumed ASCII (one byte = one rune).
func (i *interpreter) nfaMatch(expr string, b []value) *Term {
	tt := i.ps.tt
	rx, err := syntax.Parse(expr, syntax.Perl)
	if err != nil {
		panic(engErr("nfaMatch parse: %v", err))
	}
	prog, err := syntax.Compile(rx.Simplify())
	if err != nil {
		panic(engErr("nfaMatch compile: %v", err))
	}
	n := len(b)
	bt := make([]*Term, n)
	for k := range b {
		bt[k] = i.byteTerm(b[k])
	}
	isWord := func(t *Term) *Term {
		c := func(lo, hi byte) *Term {
			return tt.And(tt.bvcmp("bvule", tt.BV(8, uint64(lo)), t), tt.bvcmp("bvule", t, tt.BV(8, uint64(hi))))
		}
		return tt.Or(tt.Or(c('a', 'z'), c('A', 'Z')), tt.Or(c('0', '9'), tt.Eq(t, tt.BV(8, '_'))))
	}
	// emptyOK(pos, op): condition under which the empty-width assertion holds at pos
	emptyOK := func(pos int, op syntax.EmptyOp) *Term {
		r := tt.Bool(true)
		if op&syntax.EmptyBeginText != 0 && pos != 0 {
			return tt.Bool(false)
		}
		if op&syntax.EmptyEndText != 0 && pos != n {
			return tt.Bool(false)
		}
		if op&syntax.EmptyBeginLine != 0 && pos != 0 {
			r = tt.And(r, tt.Eq(bt[pos-1], tt.BV(8, '\n')))
		}
		if op&syntax.EmptyEndLine != 0 && pos != n {
			r = tt.And(r, tt.Eq(bt[pos], tt.BV(8, '\n')))
		}
		if op&(syntax.EmptyWordBoundary|syntax.EmptyNoWordBoundary) != 0 {
			w1, w2 := tt.Bool(false), tt.Bool(false)
			if pos > 0 {
				w1 = isWord(bt[pos-1])
			}
			if pos < n {
				w2 = isWord(bt[pos])
			}
			diff := tt.Not(tt.Eq(w1, w2))
			if op&syntax.EmptyWordBoundary != 0 {
				r = tt.And(r, diff)
			}
			if op&syntax.EmptyNoWordBoundary != 0 {
				r = tt.And(r, tt.Not(diff))
			}
		}
		return r
	}
	runeCond := func(inst *syntax.Inst, t *Term) *Term {
		switch inst.Op {
		case syntax.InstRuneAny:
			return tt.Bool(true)
		case syntax.InstRuneAnyNotNL:
			return tt.Not(tt.Eq(t, tt.BV(8, '\n')))
		}
		rs := inst.Rune
		fold := syntax.Flags(inst.Arg)&syntax.FoldCase != 0
		if len(rs) == 1 {
			r := tt.Eq(t, tt.BV(8, uint64(byte(rs[0]))))
			if rs[0] > 0x7f {
				return tt.Bool(false)
			}
			if fold {
				for f := unicode.SimpleFold(rs[0]); f != rs[0]; f = unicode.SimpleFold(f) {
					if f <= 0x7f {
						r = tt.Or(r, tt.Eq(t, tt.BV(8, uint64(byte(f)))))
					}
				}
			}
			return r
		}
		r := tt.Bool(false)
		for k := 0; k+1 < len(rs); k += 2 {
			lo, hi := rs[k], rs[k+1]
			if lo > 0x7f {
				continue
			}
			if hi > 0x7f {
				hi = 0x7f
			}
			r = tt.Or(r, tt.And(tt.bvcmp("bvule", tt.BV(8, uint64(lo)), t), tt.bvcmp("bvule", t, tt.BV(8, uint64(hi)))))
		}
		return r
	}
	// active[pc] = condition under which thread pc is alive at the current position
	matched := tt.Bool(false)
	var addThread func(active map[int]*Term, pc int, cond *Term, pos int, seen map[int]bool)
	addThread = func(active map[int]*Term, pc int, cond *Term, pos int, seen map[int]bool) {
		if cond.isFalse() {
			return
		}
		inst := &prog.Inst[pc]
		switch inst.Op {
		case syntax.InstFail:
		case syntax.InstAlt, syntax.InstAltMatch:
			// guard against ε-loops: a pc may be revisited with a different
			// condition, so conditions are or-ed rather than skipped; recursion is
			// bounded by the seen set of this ε-closure walk
			if seen[pc] {
				return
			}
			seen[pc] = true
			addThread(active, int(inst.Out), cond, pos, seen)
			addThread(active, int(inst.Arg), cond, pos, seen)
			delete(seen, pc)
		case syntax.InstCapture, syntax.InstNop:
			if seen[pc] {
				return
			}
			seen[pc] = true
			addThread(active, int(inst.Out), cond, pos, seen)
			delete(seen, pc)
		case syntax.InstEmptyWidth:
			if seen[pc] {
				return
			}
			seen[pc] = true
			addThread(active, int(inst.Out), tt.And(cond, emptyOK(pos, syntax.EmptyOp(inst.Arg))), pos, seen)
			delete(seen, pc)
		case syntax.InstMatch:
			matched = tt.Or(matched, cond)
		default: // rune instructions
			if old, ok := active[pc]; ok {
				active[pc] = tt.Or(old, cond)
			} else {
				active[pc] = cond
			}
		}
	}
	cur := map[int]*Term{}
	for pos := 0; pos <= n; pos++ {
		// unanchored search: a new thread starts at every position
		addThread(cur, prog.Start, tt.Bool(true), pos, map[int]bool{})
		if pos == n {
			break
		}
		next := map[int]*Term{}
		pcs := make([]int, 0, len(cur))
		for pc := range cur {
			pcs = append(pcs, pc)
		}
		sort.Ints(pcs)
		for _, pc := range pcs {
			cond := cur[pc]
			inst := &prog.Inst[pc]
			addThread(next, int(inst.Out), tt.And(cond, runeCond(inst, bt[pos])), pos+1, map[int]bool{})
		}
		cur = next
	}
	return matched
}
