package main

import (
	"encoding/json"
	"flag"
	"fmt"
	"os"
	"runtime"
	"strings"
	"time"
)

type RunResult struct {
	Package    string           `json:"package"`
	Harnesses  []*HarnessResult `json:"harnesses"`
	LoadS      float64          `json:"load_s"`
	Packages   int              `json:"ssa_packages"`
	Solver     string           `json:"solver"`
	Limits     map[string]int64 `json:"limits"`
	EngineNote string           `json:"engine_note"`
}

func main() {
	repo := flag.String("repo", "/repo", "repository root")
	pkg := flag.String("pkg", "", "package directory pattern, e.g. ./pkg/strvals")
	harness := flag.String("harness", "", "comma-separated harness source files")
	nd := flag.String("nd", "/verif/harness/nd.go.tmpl", "nd API template")
	entries := flag.String("entries", "", "comma-separated harness entry functions")
	out := flag.String("out", "", "result JSON file")
	workers := flag.Int("workers", runtime.NumCPU(), "parallel workers")
	maxInstrs := flag.Int64("max-instrs", 3_000_000, "SSA instruction bound per path")
	maxDec := flag.Int("max-decisions", 400, "decision bound per path")
	maxPaths := flag.Int("max-paths", 0, "stop after this many paths (0 = exhaust)")
	solver := flag.String("solver", "z3", "z3 | z3-new | cvc5")
	timeoutMs := flag.Int("timeout-ms", 10000, "solver timeout per query")
	deadline := flag.Int("deadline-s", 0, "wall-clock budget per harness (0 = none)")
	samples := flag.Int("samples", 6, "completed-path witnesses to keep per harness")
	trace := flag.Bool("trace", false, "trace instructions (single worker)")
	flag.Parse()
	if *pkg == "" || *harness == "" || *entries == "" {
		fatalf("usage: gosym -pkg ./pkg/x -harness f.go -entries H1,H2 -out r.json")
	}
	t0 := time.Now()
	env, err := loadProgram(*repo, *pkg, strings.Split(*harness, ","), *nd)
	if err != nil {
		fatalf("load: %v", err)
	}
	env.trace = *trace
	rr := &RunResult{Package: *pkg, LoadS: time.Since(t0).Seconds(), Packages: len(env.prog.AllPackages()), Solver: *solver,
		Limits: map[string]int64{"max_instrs_per_path": *maxInstrs, "max_decisions_per_path": int64(*maxDec), "max_paths": int64(*maxPaths), "solver_timeout_ms": int64(*timeoutMs), "workers": int64(*workers)}}
	fmt.Fprintf(os.Stderr, "loaded %s: %d packages in %.1fs\n", *pkg, rr.Packages, rr.LoadS)
	for _, e := range strings.Split(*entries, ",") {
		fn := env.pkg.Func(e)
		if fn == nil {
			fatalf("entry %s not found in %s", e, env.pkg.Pkg.Path())
		}
		lim := Limits{MaxInstrs: *maxInstrs, MaxDecisions: *maxDec, MaxPaths: *maxPaths, Workers: *workers, SolverKind: *solver, TimeoutMs: *timeoutMs, MaxSamples: *samples}
		if *trace {
			lim.Workers = 1
		}
		if *deadline > 0 {
			lim.Deadline = time.Now().Add(time.Duration(*deadline) * time.Second)
		}
		hr := explore(env, fn, lim)
		rr.Harnesses = append(rr.Harnesses, hr)
		fmt.Fprintf(os.Stderr, "%s: paths=%d infeasible=%d assumed=%d truncated=%d errors=%d violations=%d obligations=%d/%d queries=%d solver=%.1fs wall=%.1fs exhausted=%v\n",
			hr.Harness, hr.Paths, hr.Infeasible, hr.Assumed, hr.Truncated, hr.Errors, hr.ViolationCount, hr.Discharged, hr.Obligations, hr.Queries, hr.SolverTime, hr.Wall, hr.Exhausted)
		for _, s := range hr.ErrorSamples {
			fmt.Fprintf(os.Stderr, "  ENGINE-ERROR: %s\n", s)
		}
		for _, s := range hr.TruncSamples {
			fmt.Fprintf(os.Stderr, "  TRUNCATED: %s\n", s)
		}
		for _, k := range sortedKeys(hr.ViolationClasses) {
			fmt.Fprintf(os.Stderr, "  VIOLATION-CLASS %6d  %s\n", hr.ViolationClasses[k], k)
		}
		if os.Getenv("GOSYM_VERBOSE") != "" {
			for _, v := range hr.Violations {
				fmt.Fprintf(os.Stderr, "  VIOLATION %s/%s [%s] %s tag=%q model=%v strings=%q\n", v.Harness, v.Site, v.Kind, v.Msg, v.Tag, v.Model, v.Strings)
			}
		}
		for _, s := range hr.SolverErrors {
			fmt.Fprintf(os.Stderr, "  SOLVER-ERROR: %s\n", s)
		}
	}
	if *out != "" {
		b, _ := json.MarshalIndent(rr, "", " ")
		if err := os.WriteFile(*out, b, 0o644); err != nil {
			fatalf("write: %v", err)
		}
	}
}
