// Derived from golang.org/x/tools/go/ssa/interp (BSD-style licence, The Go
// Authors). Reworked into a symbolic executor: scalar leaves may be SMT terms,
// control flow on a symbolic condition goes through pathState.branch, goroutines
// run under a deterministic baton scheduler, maps are insertion-ordered, target
// run-time errors are raised explicitly (so that a host run-time error always
// means an engine defect, never a target panic).

package main

import (
	"fmt"
	"os"
	"go/token"
	"go/types"
	"runtime"
	"runtime/debug"
	"strings"

	"golang.org/x/tools/go/ssa"
)

type continuation int

const (
	kNext continuation = iota
	kReturn
	kJump
)

// State of one worker; path-specific parts are reset by beginPath.
type interpreter struct {
	prog               *ssa.Program
	globals            map[*ssa.Global]*value
	inited             map[*ssa.Package]bool
	runtimeErrorString types.Type
	sizes              types.Sizes
	env                *Env // shared, read-only: program, harness info, intrinsic tables
	ps                 *pathState
	sched              *scheduler
	race               *raceDet
	depth              int
	funcsSeen          map[*ssa.Function]bool
	timeCounter        int64
	trace              bool
	lastPanicStack     []string
	curFrame           *frame
}

type deferred struct {
	fn    value
	args  []value
	instr *ssa.Defer
	tail  *deferred
}

type frame struct {
	i                *interpreter
	caller           *frame
	fn               *ssa.Function
	block, prevBlock *ssa.BasicBlock
	env              map[ssa.Value]value // dynamic values of SSA variables
	locals           []value
	defers           *deferred
	result           value
	panicking        bool
	panic            interface{}
	phitemps         []value // temporaries for parallel phi assignment
	callpos          token.Pos
	initSkip         map[ssa.Value]bool // package initializer only: values of skipped (foreign test file) initialisers
}

// targetPanic: the target program panicked (explicitly or by a run-time error).
type targetPanic struct {
	v value
}

func (p targetPanic) String() string { return toString(p.v) }

// pathEnd: engine-level termination of the current path (never seen by target defers).
type pathEnd struct {
	status string // infeasible | assumed | violation | truncated | dead | done
	reason string
}

// engineError: the engine cannot continue soundly (unsupported construct, internal bug).
type engineError struct {
	msg   string
	stack string
}

func engErr(format string, a ...interface{}) engineError {
	return engineError{msg: fmt.Sprintf(format, a...), stack: string(debug.Stack())}
}

func mustDeref(t types.Type) types.Type {
	if p, ok := t.Underlying().(*types.Pointer); ok {
		return p.Elem()
	}
	panic(engErr("mustDeref: not a pointer: %s", t))
}

// rtPanic raises a target-level run-time error.
func (i *interpreter) rtPanic(msg string) {
	i.lastPanicStack = i.stackOf(i.curFrame)
	panic(targetPanic{iface{i.runtimeErrorString, "runtime error: " + msg}})
}

func (fr *frame) get(key ssa.Value) value {
	switch key := key.(type) {
	case nil:
		return nil
	case *ssa.Function, *ssa.Builtin:
		return key
	case *ssa.Const:
		return constValue(key)
	case *ssa.Global:
		return fr.i.globalAddr(key)
	}
	if r, ok := fr.env[key]; ok {
		return r
	}
	panic(engErr("get: no value for %T: %v", key, key.Name()))
}

func isHelmPkg(p *ssa.Package) bool {
	return p != nil && strings.HasPrefix(p.Pkg.Path(), "helm.sh/helm/")
}

// globalAddr returns the cell of a package-level variable, running that
// package's initializer (only) the first time one of its globals is touched.
func (i *interpreter) globalAddr(g *ssa.Global) *value {
	if r, ok := i.globals[g]; ok {
		return r
	}
	pkg := g.Pkg
	if !i.inited[pkg] {
		i.inited[pkg] = true
		for _, m := range pkg.Members {
			if gv, ok := m.(*ssa.Global); ok {
				if _, ok := i.globals[gv]; !ok {
					cell := zero(mustDeref(gv.Type()))
					i.globals[gv] = &cell
				}
			}
		}
		if init := pkg.Func("init"); init != nil && !i.env.skipInit[pkg.Pkg.Path()] {
			i.runPkgInit(pkg, init)
		}
	}
	if r, ok := i.globals[g]; ok {
		return r
	}
	cell := zero(mustDeref(g.Type()))
	i.globals[g] = &cell
	return &cell
}

var traceInit = os.Getenv("GOSYM_TRACE_INIT") != ""

func (i *interpreter) runPkgInit(pkg *ssa.Package, init *ssa.Function) {
	if i.trace || traceInit {
		fmt.Fprintf(os.Stderr, "## init %s (touched from %s)\n", pkg.Pkg.Path(), strings.Join(i.stackOf(i.curFrame), " <- "))
	}
	saved := i.depth
	defer func() { i.depth = saved }()
	callSSA(i, nil, token.NoPos, init, nil, nil, true)
}

// runDefer runs a deferred call d.
// It always returns normally, but may set or clear fr.panic.
func (fr *frame) runDefer(d *deferred) {
	var ok bool
	defer func() {
		if !ok {
			r := recover()
			if _, isT := r.(targetPanic); !isT {
				panic(r) // engine-level: propagate untouched
			}
			fr.panicking = true
			fr.panic = r
		}
	}()
	call(fr.i, fr, d.instr.Pos(), d.fn, d.args)
	ok = true
}

func (fr *frame) runDefers() {
	for d := fr.defers; d != nil; d = d.tail {
		fr.runDefer(d)
	}
	fr.defers = nil
	if fr.panicking {
		panic(fr.panic) // new panic, or still panicking
	}
}

func lookupMethod(i *interpreter, typ types.Type, meth *types.Func) *ssa.Function {
	return i.prog.LookupMethod(typ, meth.Pkg(), meth.Name())
}

// visitInstr interprets a single ssa.Instruction within the activation
// record frame.
func visitInstr(fr *frame, instr ssa.Instruction) continuation {
	switch instr := instr.(type) {
	case *ssa.DebugRef:
		// no-op

	case *ssa.UnOp:
		fr.env[instr] = unop(fr, instr, fr.get(instr.X))

	case *ssa.BinOp:
		fr.env[instr] = binop(fr.i, instr.Op, instr.X.Type(), fr.get(instr.X), fr.get(instr.Y))

	case *ssa.Call:
		fn, args := prepareCall(fr, &instr.Call)
		fr.env[instr] = call(fr.i, fr, instr.Pos(), fn, args)

	case *ssa.ChangeInterface:
		fr.env[instr] = fr.get(instr.X)

	case *ssa.ChangeType:
		fr.env[instr] = fr.get(instr.X) // (can't fail)

	case *ssa.Convert:
		fr.env[instr] = conv(fr.i, instr.Type(), instr.X.Type(), fr.get(instr.X))

	case *ssa.MultiConvert:
		fr.env[instr] = conv(fr.i, instr.Type(), instr.X.Type(), fr.get(instr.X))

	case *ssa.SliceToArrayPointer:
		fr.env[instr] = sliceToArrayPointer(instr.Type(), instr.X.Type(), fr.get(instr.X))

	case *ssa.MakeInterface:
		fr.env[instr] = iface{t: instr.X.Type(), v: fr.get(instr.X)}

	case *ssa.Extract:
		fr.env[instr] = fr.get(instr.Tuple).(tuple)[instr.Index]

	case *ssa.Slice:
		fr.env[instr] = slice(fr.i, fr.get(instr.X), fr.get(instr.Low), fr.get(instr.High), fr.get(instr.Max))

	case *ssa.Return:
		switch len(instr.Results) {
		case 0:
		case 1:
			fr.result = fr.get(instr.Results[0])
		default:
			var res []value
			for _, r := range instr.Results {
				res = append(res, fr.get(r))
			}
			fr.result = tuple(res)
		}
		fr.block = nil
		return kReturn

	case *ssa.RunDefers:
		fr.runDefers()

	case *ssa.Panic:
		fr.i.lastPanicStack = fr.i.stackOf(fr)
		panic(targetPanic{fr.get(instr.X)})

	case *ssa.Send:
		fr.i.chanSend(fr.get(instr.Chan).(*echan), fr.get(instr.X))

	case *ssa.Store:
		addr := fr.get(instr.Addr).(*value)
		if addr == nil {
			fr.i.rtPanic("invalid memory address or nil pointer dereference")
		}
		if fr.i.race != nil {
			fr.i.raceAccess(fr, addr, true, instr.Pos())
		}
		store(mustDeref(instr.Addr.Type()), addr, fr.get(instr.Val))

	case *ssa.If:
		succ := 1
		switch c := fr.get(instr.Cond).(type) {
		case bool:
			if c {
				succ = 0
			}
		case symB:
			if fr.i.ps.branch(c.t) {
				succ = 0
			}
		default:
			panic(engErr("If on %T", c))
		}
		fr.prevBlock, fr.block = fr.block, fr.block.Succs[succ]
		return kJump

	case *ssa.Jump:
		fr.prevBlock, fr.block = fr.block, fr.block.Succs[0]
		return kJump

	case *ssa.Defer:
		fn, args := prepareCall(fr, &instr.Call)
		defers := &fr.defers
		if into := fr.get(instr.DeferStack); into != nil {
			defers = into.(**deferred)
		}
		*defers = &deferred{
			fn:    fn,
			args:  args,
			instr: instr,
			tail:  *defers,
		}

	case *ssa.Go:
		fn, args := prepareCall(fr, &instr.Call)
		fr.i.spawn(fn, args, instr.Pos())

	case *ssa.MakeChan:
		fr.env[instr] = &echan{cap: int(asInt64(fr.i.concretize(fr.get(instr.Size))))}

	case *ssa.Alloc:
		var addr *value
		if instr.Heap {
			addr = new(value)
			fr.env[instr] = addr
		} else {
			addr = fr.env[instr].(*value)
		}
		*addr = zero(mustDeref(instr.Type()))

	case *ssa.MakeSlice:
		c := asInt64(fr.i.concretize(fr.get(instr.Cap)))
		l := asInt64(fr.i.concretize(fr.get(instr.Len)))
		if l < 0 || c < l {
			fr.i.rtPanic("makeslice: len out of range")
		}
		if c > 1<<24 {
			panic(engErr("makeslice: cap %d too large for the engine", c))
		}
		slice := make([]value, c)
		tElt := instr.Type().Underlying().(*types.Slice).Elem()
		for i := range slice {
			slice[i] = zero(tElt)
		}
		fr.env[instr] = slice[:l]

	case *ssa.MakeMap:
		fr.env[instr] = newOmap(instr.Type().Underlying().(*types.Map).Key())

	case *ssa.Range:
		if m, ok := fr.get(instr.X).(*omap); ok && m != nil && fr.i.race != nil {
			fr.i.raceAccess(fr, m, false, instr.Pos())
		}
		fr.env[instr] = rangeIter(fr.i, fr.get(instr.X), instr.X.Type())

	case *ssa.Next:
		fr.env[instr] = fr.get(instr.Iter).(iter).next()

	case *ssa.FieldAddr:
		p := fr.get(instr.X).(*value)
		if p == nil {
			fr.i.rtPanic("invalid memory address or nil pointer dereference")
		}
		fr.env[instr] = &(*p).(structure)[instr.Field]

	case *ssa.Field:
		fr.env[instr] = fr.get(instr.X).(structure)[instr.Field]

	case *ssa.IndexAddr:
		x := fr.get(instr.X)
		switch x := x.(type) {
		case []value:
			idx := fr.i.indexIn(fr.get(instr.Index), len(x))
			fr.env[instr] = &x[idx]
		case *value: // *array
			if x == nil {
				fr.i.rtPanic("invalid memory address or nil pointer dereference")
			}
			a := (*x).(array)
			idx := fr.i.indexIn(fr.get(instr.Index), len(a))
			fr.env[instr] = &a[idx]
		default:
			panic(engErr("unexpected x type in IndexAddr: %T", x))
		}

	case *ssa.Index:
		x := fr.get(instr.X)
		switch x := x.(type) {
		case array:
			idx := fr.i.indexIn(fr.get(instr.Index), len(x))
			fr.env[instr] = x[idx]
		case string:
			idx := fr.i.indexIn(fr.get(instr.Index), len(x))
			fr.env[instr] = x[idx]
		case symS:
			idx := fr.i.indexIn(fr.get(instr.Index), len(x.b))
			fr.env[instr] = x.b[idx]
		default:
			panic(engErr("unexpected x type in Index: %T", x))
		}

	case *ssa.Lookup:
		if m, ok := fr.get(instr.X).(*omap); ok && m != nil && fr.i.race != nil {
			fr.i.raceAccess(fr, m, false, instr.Pos())
		}
		fr.env[instr] = lookup(fr.i, instr, fr.get(instr.X), fr.get(instr.Index))

	case *ssa.MapUpdate:
		m := fr.get(instr.Map).(*omap)
		if m == nil {
			panic(targetPanic{iface{fr.i.runtimeErrorString, "assignment to entry in nil map"}})
		}
		if fr.i.race != nil {
			fr.i.raceAccess(fr, m, true, instr.Pos())
		}
		m.insert(fr.i, fr.get(instr.Key), fr.get(instr.Value))

	case *ssa.TypeAssert:
		fr.env[instr] = typeAssert(fr.i, instr, fr.get(instr.X).(iface))

	case *ssa.MakeClosure:
		var bindings []value
		for _, binding := range instr.Bindings {
			bindings = append(bindings, fr.get(binding))
		}
		fr.env[instr] = &closure{instr.Fn.(*ssa.Function), bindings}

	case *ssa.Phi:
		panic(engErr("unreachable phi"))

	case *ssa.Select:
		fr.env[instr] = fr.i.doSelect(fr, instr)

	default:
		panic(engErr("unexpected instruction: %T", instr))
	}
	return kNext
}

func prepareCall(fr *frame, call *ssa.CallCommon) (fn value, args []value) {
	v := fr.get(call.Value)
	if call.Method == nil {
		fn = v
	} else {
		recv := v.(iface)
		if recv.t == nil {
			fr.i.rtPanic("invalid memory address or nil pointer dereference (method call on nil interface)")
		}
		if f := lookupMethod(fr.i, recv.t, call.Method); f == nil {
			panic(engErr("method set for dynamic type %v does not contain %s", recv.t, call.Method))
		} else {
			fn = f
		}
		args = append(args, recv.v)
	}
	for _, arg := range call.Args {
		args = append(args, fr.get(arg))
	}
	return
}

func call(i *interpreter, caller *frame, callpos token.Pos, fn value, args []value) value {
	switch fn := fn.(type) {
	case *ssa.Function:
		if fn == nil {
			i.rtPanic("invalid memory address or nil pointer dereference (call of nil func)")
		}
		return callSSA(i, caller, callpos, fn, args, nil, false)
	case *closure:
		return callSSA(i, caller, callpos, fn.Fn, args, fn.Env, false)
	case *ssa.Builtin:
		return callBuiltin(caller, callpos, fn, args)
	case *nativeFunc:
		return fn.f(caller, args)
	}
	panic(engErr("cannot call %T", fn))
}

func loc(fset *token.FileSet, pos token.Pos) string {
	if pos == token.NoPos {
		return ""
	}
	return fset.Position(pos).String()
}

const maxDepth = 400

func callSSA(i *interpreter, caller *frame, callpos token.Pos, fn *ssa.Function, args []value, env []value, isInit bool) value {
	fr := &frame{
		i:       i,
		caller:  caller,
		fn:      fn,
		callpos: callpos,
	}
	if fn.Parent() == nil {
		if !isInit && fn.Synthetic == "package initializer" {
			return nil // other packages are initialised lazily, when their globals are touched
		}
		if h := i.env.handler(fn); h != nil {
			return h(fr, args)
		}
		if fn.Blocks == nil {
			panic(engErr("no code for function: %s (called from %s)", fn.String(), callerName(caller)))
		}
	}
	if fn.TypeParams().Len() > 0 && len(fn.TypeArgs()) == 0 {
		panic(engErr("uninstantiated generic %s", fn))
	}
	i.depth++
	if i.depth > maxDepth {
		i.depth--
		panic(pathEnd{"violation-depth", fmt.Sprintf("call depth exceeds %d in %s", maxDepth, fn)})
	}
	if i.funcsSeen != nil && !i.funcsSeen[fn] {
		i.funcsSeen[fn] = true
	}
	if i.trace {
		fmt.Printf("%s> %s\n", strings.Repeat(" ", i.depth), fn)
	}
	fr.env = make(map[ssa.Value]value)
	fr.block = fn.Blocks[0]
	fr.locals = make([]value, len(fn.Locals))
	for i, l := range fn.Locals {
		fr.locals[i] = zero(mustDeref(l.Type()))
		fr.env[l] = &fr.locals[i]
	}
	for i, p := range fn.Params {
		fr.env[p] = args[i]
	}
	for i, fv := range fn.FreeVars {
		fr.env[fv] = env[i]
	}
	if isInit {
		fr.initSkip = map[ssa.Value]bool{}
		// force the guard so that the body executes exactly once per (re)initialisation
		if g, ok := fn.Pkg.Members["init$guard"].(*ssa.Global); ok {
			*i.globalAddr(g) = false
		}
	}
	prevFrame := i.curFrame
	i.curFrame = fr
	for fr.block != nil {
		runFrame(fr)
	}
	i.curFrame = prevFrame
	i.depth--
	return fr.result
}

func callerName(fr *frame) string {
	if fr == nil {
		return "<root>"
	}
	return fr.fn.String()
}

func runFrame(fr *frame) {
	defer func() {
		if fr.block == nil {
			return // normal return
		}
		r := recover()
		switch r := r.(type) {
		case targetPanic:
			fr.panicking = true
			fr.panic = r
			fr.i.depth = frameDepth(fr)
			fr.i.curFrame = fr
			fr.runDefers()
			fr.block = fr.fn.Recover
			if fr.block == nil {
				// recovered in a function without named results: zero result
				fr.result = zeroResult(fr.fn)
			}
		case pathEnd:
			panic(r)
		case engineError:
			if !strings.Contains(r.msg, "\n  target stack:") {
				r.msg += "\n  target stack: " + strings.Join(fr.i.stackOf(fr), " <- ")
			}
			panic(r)
		case runtime.Error:
			if strings.Contains(r.Error(), "integer divide by zero") {
				// host arithmetic on concrete operands mirrors the target's
				fr.panicking = true
				fr.panic = targetPanic{iface{fr.i.runtimeErrorString, "runtime error: integer divide by zero"}}
				fr.runDefers()
				fr.block = fr.fn.Recover
				if fr.block == nil {
					fr.result = zeroResult(fr.fn)
				}
				return
			}
			panic(engineError{msg: fmt.Sprintf("host runtime error in %s: %v\n  target stack: %s", fr.fn, r, strings.Join(fr.i.stackOf(fr), " <- ")), stack: string(debug.Stack())})
		default:
			panic(engineError{msg: fmt.Sprintf("engine panic in %s: %v\n  target stack: %s", fr.fn, r, strings.Join(fr.i.stackOf(fr), " <- ")), stack: string(debug.Stack())})
		}
	}()

	ps := fr.i.ps
	for {
		nonPhis := executePhis(fr)
		for _, instr := range nonPhis {
			ps.instrs++
			if ps.instrs > ps.maxInstrs {
				panic(pathEnd{"truncated", fmt.Sprintf("instruction bound %d exceeded in %s", ps.maxInstrs, fr.fn)})
			}
			if fr.i.trace {
				if v, ok := instr.(ssa.Value); ok {
					fmt.Printf("%s  %s = %s\n", strings.Repeat(" ", fr.i.depth), v.Name(), instr)
				} else {
					fmt.Printf("%s  %s\n", strings.Repeat(" ", fr.i.depth), instr)
				}
			}
			if fr.initSkip != nil {
				if fr.skipInInit(instr, false) {
					continue
				}
				if cont, ok := fr.tryInitInstr(instr); ok {
					if cont == kReturn {
						return
					}
					if cont == kJump {
						break
					}
					continue
				}
				continue
			}
			if visitInstr(fr, instr) == kReturn {
				return
			}
		}
	}
}

func frameDepth(fr *frame) int {
	d := 0
	for f := fr; f != nil; f = f.caller {
		d++
	}
	return d
}

func zeroResult(fn *ssa.Function) value {
	res := fn.Signature.Results()
	switch res.Len() {
	case 0:
		return nil
	case 1:
		return zero(res.At(0).Type())
	}
	return zero(res)
}

func executePhis(fr *frame) []ssa.Instruction {
	firstNonPhi := -1
	for i, instr := range fr.block.Instrs {
		if _, ok := instr.(*ssa.Phi); !ok {
			firstNonPhi = i
			break
		}
	}
	nonPhis := fr.block.Instrs[firstNonPhi:]
	if firstNonPhi > 0 {
		phis := fr.block.Instrs[:firstNonPhi]
		predIndex := -1
		for k, p := range fr.block.Preds {
			if p == fr.prevBlock {
				predIndex = k
				break
			}
		}
		fr.phitemps = fr.phitemps[:0]
		for _, phi := range phis {
			phi := phi.(*ssa.Phi)
			fr.phitemps = append(fr.phitemps, fr.get(phi.Edges[predIndex]))
		}
		for i, phi := range phis {
			fr.env[phi.(*ssa.Phi)] = fr.phitemps[i]
		}
	}
	return nonPhis
}

// doRecover implements the recover() built-in.
func doRecover(caller *frame) value {
	if caller != nil && !caller.panicking &&
		caller.caller != nil && caller.caller.panicking {
		caller.caller.panicking = false
		p := caller.caller.panic
		caller.caller.panic = nil
		switch p := p.(type) {
		case targetPanic:
			return p.v
		default:
			panic(engErr("unexpected panic type %T in target call to recover()", p))
		}
	}
	return iface{}
}

// skipInInit: while running the initializer of a helm package's test variant,
// initialisers and init functions that come from the package's own _test.go
// files (not the harness overlay) are skipped — they set up helm's unit-test
// fixtures (REST codecs, fake servers) and are never part of a claim. A skipped
// value poisons everything computed from it.
func (fr *frame) skipInInit(instr ssa.Instruction, force bool) bool {
	foreign := force
	if pos := instr.Pos(); pos.IsValid() {
		name := fr.i.prog.Fset.Position(pos).Filename
		if strings.HasSuffix(name, "_test.go") && !strings.Contains(name, "zz_verif_") {
			foreign = true
		}
	}
	if c, ok := instr.(*ssa.Call); ok && !foreign {
		if f, ok := c.Call.Value.(*ssa.Function); ok && strings.HasPrefix(f.Name(), "init#") {
			name := fr.i.prog.Fset.Position(f.Pos()).Filename
			if strings.HasSuffix(name, "_test.go") && !strings.Contains(name, "zz_verif_") {
				foreign = true
			}
		}
	}
	if !foreign {
		var buf [8]*ssa.Value
		for _, op := range instr.Operands(buf[:0]) {
			if *op != nil && fr.initSkip[*op] {
				foreign = true
				break
			}
		}
	}
	if !foreign {
		return false
	}
	switch instr.(type) {
	case *ssa.If, *ssa.Jump, *ssa.Return:
		return false // control flow is never skipped
	}
	if v, ok := instr.(ssa.Value); ok {
		fr.initSkip[v] = true
	}
	if st, ok := instr.(*ssa.Store); ok {
		if g, ok := st.Addr.(*ssa.Global); ok {
			*fr.i.globalAddr(g) = poisonVal{g.String()}
			fr.i.env.used.Store("init[poisoned]: "+g.String()+" (initialiser out of the engine's reach; any use is an engine error)", true)
		}
	}
	return true
}

// poisonVal marks a package-level variable whose initialiser could not be run.
type poisonVal struct{ name string }

// tryInitInstr executes one instruction of a package initializer; if the engine
// cannot execute it (reflection, assembly, unsupported library code) the
// instruction is skipped and its result poisoned instead of failing the path:
// only an actual use of a poisoned value is an error.
func (fr *frame) tryInitInstr(instr ssa.Instruction) (cont continuation, ok bool) {
	defer func() {
		if r := recover(); r != nil {
			switch r.(type) {
			case engineError, runtime.Error, string:
				if _, isCtl := instr.(*ssa.If); isCtl {
					panic(r)
				}
				fr.i.depth = frameDepth(fr)
				fr.i.curFrame = fr
				fr.skipInInit(instr, true)
				ok = false
				return
			}
			panic(r)
		}
	}()
	return visitInstr(fr, instr), true
}
