package main

// Symbolic scalar values and the operations on them.

import (
	"fmt"
	"go/token"
	"go/types"
)

// symB is a bool whose value is an SMT Bool term.
type symB struct{ t *Term }

// symI is an integer of Go kind k whose value is a bit-vector term.
type symI struct {
	t *Term
	k types.BasicKind
}

// symS is a string (concrete length) with at least one symbolic byte.
// Elements are uint8 or symI{k: Uint8}. Immutable by convention.
type symS struct{ b []value }

func kindWidth(k types.BasicKind) int {
	switch k {
	case types.Int8, types.Uint8:
		return 8
	case types.Int16, types.Uint16:
		return 16
	case types.Int32, types.Uint32:
		return 32
	}
	return 64
}

func kindSigned(k types.BasicKind) bool {
	switch k {
	case types.Int, types.Int8, types.Int16, types.Int32, types.Int64:
		return true
	}
	return false
}

func kindOf(x value) (types.BasicKind, bool) {
	switch x := x.(type) {
	case int:
		return types.Int, true
	case int8:
		return types.Int8, true
	case int16:
		return types.Int16, true
	case int32:
		return types.Int32, true
	case int64:
		return types.Int64, true
	case uint:
		return types.Uint, true
	case uint8:
		return types.Uint8, true
	case uint16:
		return types.Uint16, true
	case uint32:
		return types.Uint32, true
	case uint64:
		return types.Uint64, true
	case uintptr:
		return types.Uintptr, true
	case symI:
		return x.k, true
	}
	return 0, false
}

// mkInt builds the concrete Go value of kind k from raw bits.
func mkInt(k types.BasicKind, v uint64) value {
	switch k {
	case types.Int:
		return int(v)
	case types.Int8:
		return int8(v)
	case types.Int16:
		return int16(v)
	case types.Int32:
		return int32(v)
	case types.Int64:
		return int64(v)
	case types.Uint:
		return uint(v)
	case types.Uint8:
		return uint8(v)
	case types.Uint16:
		return uint16(v)
	case types.Uint32:
		return uint32(v)
	case types.Uint64:
		return uint64(v)
	case types.Uintptr:
		return uintptr(v)
	}
	panic(engErr("mkInt kind %v", k))
}

func isSym(x value) bool {
	switch x.(type) {
	case symB, symI, symS:
		return true
	}
	return false
}

// intTerm returns the bit-vector term for an integer value (concrete or symbolic).
func (i *interpreter) intTerm(x value) *Term {
	switch x := x.(type) {
	case symI:
		return x.t
	}
	k, ok := kindOf(x)
	if !ok {
		panic(engErr("intTerm of %T", x))
	}
	return i.ps.tt.BV(kindWidth(k), uint64(asInt64(x)))
}

func (i *interpreter) boolTerm(x value) *Term {
	switch x := x.(type) {
	case bool:
		return i.ps.tt.Bool(x)
	case symB:
		return x.t
	}
	panic(engErr("boolTerm of %T", x))
}

// wrapInt returns a concrete value when t is constant.
func wrapInt(t *Term, k types.BasicKind) value {
	if t.isConst() {
		if kindSigned(k) {
			return mkInt(k, uint64(sext64(t.val, t.w)))
		}
		return mkInt(k, t.val)
	}
	return symI{t, k}
}

func wrapBool(t *Term) value {
	if t.isConst() {
		return t.val == 1
	}
	return symB{t}
}

func strBytes(x value) []value {
	switch x := x.(type) {
	case string:
		b := make([]value, len(x))
		for i := 0; i < len(x); i++ {
			b[i] = x[i]
		}
		return b
	case symS:
		return x.b
	}
	panic(engErr("strBytes of %T", x))
}

// mkStr normalises a byte-cell vector into string or symS.
func mkStr(b []value) value {
	allc := true
	for _, c := range b {
		if _, ok := c.(uint8); !ok {
			allc = false
			break
		}
	}
	if allc {
		bs := make([]byte, len(b))
		for i, c := range b {
			bs[i] = c.(uint8)
		}
		return string(bs)
	}
	cp := make([]value, len(b))
	copy(cp, b)
	return symS{cp}
}

func strLen(x value) int {
	switch x := x.(type) {
	case string:
		return len(x)
	case symS:
		return len(x.b)
	}
	panic(engErr("strLen of %T", x))
}

// symBinop handles a binary operator when at least one operand is symbolic.
func (i *interpreter) symBinop(op token.Token, t types.Type, x, y value) value {
	tt := i.ps.tt
	// strings
	_, xs := x.(symS)
	_, ys := y.(symS)
	if xs || ys {
		xb, yb := strBytes(x), strBytes(y)
		switch op {
		case token.ADD:
			r := make([]value, 0, len(xb)+len(yb))
			r = append(r, xb...)
			r = append(r, yb...)
			return mkStr(r)
		case token.EQL:
			return wrapBool(i.strEq(xb, yb))
		case token.NEQ:
			return wrapBool(tt.Not(i.strEq(xb, yb)))
		case token.LSS:
			return wrapBool(i.strLess(xb, yb, false))
		case token.LEQ:
			return wrapBool(i.strLess(xb, yb, true))
		case token.GTR:
			return wrapBool(i.strLess(yb, xb, false))
		case token.GEQ:
			return wrapBool(i.strLess(yb, xb, true))
		}
		panic(engErr("symBinop string op %s", op))
	}
	// bools
	_, xb := x.(symB)
	_, yb := y.(symB)
	if xb || yb {
		a, b := i.boolTerm(x), i.boolTerm(y)
		switch op {
		case token.EQL:
			return wrapBool(tt.Eq(a, b))
		case token.NEQ:
			return wrapBool(tt.Not(tt.Eq(a, b)))
		case token.AND:
			return wrapBool(tt.And(a, b))
		case token.OR:
			return wrapBool(tt.Or(a, b))
		}
		panic(engErr("symBinop bool op %s", op))
	}
	// integers
	kx, okx := kindOf(x)
	ky, oky := kindOf(y)
	if !okx || !oky {
		panic(engErr("symBinop %s on %T, %T", op, x, y))
	}
	a, b := i.intTerm(x), i.intTerm(y)
	signed := kindSigned(kx)
	if op == token.SHL || op == token.SHR {
		// shift count: any integer kind; negative signed count panics
		if kindSigned(ky) {
			neg := tt.bvcmp("bvslt", b, tt.BV(b.w, 0))
			if i.ps.branch(neg) {
				i.rtPanic("negative shift amount")
			}
		}
		w := a.w
		var cnt *Term
		big := tt.Bool(false)
		if b.w > w {
			big = tt.Not(tt.bvcmp("bvult", b, tt.BV(b.w, uint64(w))))
			cnt = tt.Extract(w-1, 0, b)
		} else {
			cnt = tt.ZExt(w, b)
		}
		var r, over *Term
		switch {
		case op == token.SHL:
			r, over = tt.bvbin("bvshl", a, cnt), tt.BV(w, 0)
		case signed:
			r = tt.bvbin("bvashr", a, cnt)
			over = tt.bvbin("bvashr", a, tt.BV(w, uint64(w-1)))
		default:
			r, over = tt.bvbin("bvlshr", a, cnt), tt.BV(w, 0)
		}
		return wrapInt(tt.Ite(big, over, r), kx)
	}
	if a.w != b.w {
		panic(engErr("symBinop %s width mismatch %v %v", op, kx, ky))
	}
	switch op {
	case token.ADD:
		return wrapInt(tt.bvbin("bvadd", a, b), kx)
	case token.SUB:
		return wrapInt(tt.bvbin("bvsub", a, b), kx)
	case token.MUL:
		return wrapInt(tt.bvbin("bvmul", a, b), kx)
	case token.QUO, token.REM:
		if i.ps.branch(tt.Eq(b, tt.BV(b.w, 0))) {
			i.rtPanic("integer divide by zero")
		}
		var o string
		switch {
		case op == token.QUO && signed:
			o = "bvsdiv"
		case op == token.QUO:
			o = "bvudiv"
		case signed:
			o = "bvsrem"
		default:
			o = "bvurem"
		}
		return wrapInt(tt.bvbin(o, a, b), kx)
	case token.AND:
		return wrapInt(tt.bvbin("bvand", a, b), kx)
	case token.OR:
		return wrapInt(tt.bvbin("bvor", a, b), kx)
	case token.XOR:
		return wrapInt(tt.bvbin("bvxor", a, b), kx)
	case token.AND_NOT:
		return wrapInt(tt.bvbin("bvand", a, tt.BNot(b)), kx)
	case token.EQL:
		return wrapBool(tt.Eq(a, b))
	case token.NEQ:
		return wrapBool(tt.Not(tt.Eq(a, b)))
	case token.LSS:
		if signed {
			return wrapBool(tt.bvcmp("bvslt", a, b))
		}
		return wrapBool(tt.bvcmp("bvult", a, b))
	case token.LEQ:
		if signed {
			return wrapBool(tt.bvcmp("bvsle", a, b))
		}
		return wrapBool(tt.bvcmp("bvule", a, b))
	case token.GTR:
		if signed {
			return wrapBool(tt.bvcmp("bvslt", b, a))
		}
		return wrapBool(tt.bvcmp("bvult", b, a))
	case token.GEQ:
		if signed {
			return wrapBool(tt.bvcmp("bvsle", b, a))
		}
		return wrapBool(tt.bvcmp("bvule", b, a))
	}
	panic(engErr("symBinop int op %s", op))
}

func (i *interpreter) byteTerm(c value) *Term {
	switch c := c.(type) {
	case uint8:
		return i.ps.tt.BV(8, uint64(c))
	case symI:
		if c.t.w != 8 {
			panic(engErr("byteTerm width %d", c.t.w))
		}
		return c.t
	}
	panic(engErr("byteTerm of %T", c))
}

func (i *interpreter) strEq(a, b []value) *Term {
	tt := i.ps.tt
	if len(a) != len(b) {
		return tt.Bool(false)
	}
	r := tt.Bool(true)
	for k := range a {
		r = tt.And(r, tt.Eq(i.byteTerm(a[k]), i.byteTerm(b[k])))
		if r.isFalse() {
			return r
		}
	}
	return r
}

// strLess: lexicographic a < b (or <= when orEq).
func (i *interpreter) strLess(a, b []value, orEq bool) *Term {
	tt := i.ps.tt
	n := len(a)
	if len(b) < n {
		n = len(b)
	}
	// tail value when the common prefix is equal
	var r *Term
	if len(a) < len(b) {
		r = tt.Bool(true)
	} else if len(a) == len(b) {
		r = tt.Bool(orEq)
	} else {
		r = tt.Bool(false)
	}
	for k := n - 1; k >= 0; k-- {
		x, y := i.byteTerm(a[k]), i.byteTerm(b[k])
		r = tt.Ite(tt.Eq(x, y), r, tt.bvcmp("bvult", x, y))
	}
	return r
}

func (i *interpreter) symUnop(op token.Token, x value) value {
	tt := i.ps.tt
	switch x := x.(type) {
	case symB:
		if op == token.NOT {
			return wrapBool(tt.Not(x.t))
		}
	case symI:
		switch op {
		case token.SUB:
			return wrapInt(tt.Neg(x.t), x.k)
		case token.XOR:
			return wrapInt(tt.BNot(x.t), x.k)
		}
	}
	panic(engErr("symUnop %s on %T", op, x))
}

// symConvInt converts a symbolic integer to another integer kind.
func (i *interpreter) symConvInt(x symI, dst types.BasicKind) value {
	tt := i.ps.tt
	w := kindWidth(dst)
	var t *Term
	switch {
	case w == x.t.w:
		t = x.t
	case w < x.t.w:
		t = tt.Extract(w-1, 0, x.t)
	case kindSigned(x.k):
		t = tt.SExt(w, x.t)
	default:
		t = tt.ZExt(w, x.t)
	}
	return wrapInt(t, dst)
}

// concretize forks the path over the feasible values of a symbolic scalar and
// returns a concrete value. Concrete inputs are returned unchanged.
func (i *interpreter) concretize(x value) value {
	switch x := x.(type) {
	case symB:
		return i.ps.branch(x.t)
	case symI:
		v := i.ps.pickValue(x.t)
		if kindSigned(x.k) {
			return mkInt(x.k, uint64(sext64(v, x.t.w)))
		}
		return mkInt(x.k, v)
	case symS:
		b := make([]byte, len(x.b))
		for k, c := range x.b {
			b[k] = i.concretize(c).(uint8)
		}
		return string(b)
	}
	return x
}

// indexIn returns a concrete index into a collection of length n: one decision
// separates the out-of-range side (the target's panic), then the in-range
// values are case-split.
func (i *interpreter) indexIn(idx value, n int) int {
	if s, ok := idx.(symI); ok {
		tt := i.ps.tt
		// an index narrower than the length can never be out of range (asciiSpace[c] with c a byte):
		// the constant would wrap to 0 in the index's width
		if s.t.w >= 63 || uint64(n) < uint64(1)<<uint(s.t.w) {
			if !i.ps.branch(tt.bvcmp("bvult", s.t, tt.BV(s.t.w, uint64(n)))) {
				i.rtPanic(fmt.Sprintf("index out of range [symbolic] with length %d", n))
			}
		}
		return int(i.ps.pickValue(s.t))
	}
	v := asInt64(idx)
	if v < 0 || v >= int64(n) {
		i.rtPanic(fmt.Sprintf("index out of range [%d] with length %d", v, n))
	}
	return int(v)
}

// boundIn concretizes a slice bound known to lie in [0,max].
func (i *interpreter) boundIn(b value, max int) int {
	if s, ok := b.(symI); ok {
		tt := i.ps.tt
		if s.t.w >= 63 || uint64(max) < uint64(1)<<uint(s.t.w) {
			if !i.ps.branch(tt.bvcmp("bvule", s.t, tt.BV(s.t.w, uint64(max)))) {
				i.rtPanic(fmt.Sprintf("slice bounds out of range [symbolic] with capacity %d", max))
			}
		}
		return int(i.ps.pickValue(s.t))
	}
	v := asInt64(b)
	if v < 0 || v > int64(max) {
		i.rtPanic(fmt.Sprintf("slice bounds out of range [%d] with capacity %d", v, max))
	}
	return int(v)
}

// equalsV is Go's == for type t, returning bool or symB.
func (i *interpreter) equalsV(t types.Type, x, y value) value {
	tm := i.equalsT(t, x, y)
	return wrapBool(tm)
}

func (i *interpreter) equalsT(t types.Type, x, y value) *Term {
	tt := i.ps.tt
	switch x := x.(type) {
	case symB:
		return tt.Eq(x.t, i.boolTerm(y))
	case symI:
		return tt.Eq(x.t, i.intTerm(y))
	case symS:
		return i.strEq(x.b, strBytes(y))
	case bool:
		if ys, ok := y.(symB); ok {
			return tt.Eq(tt.Bool(x), ys.t)
		}
		return tt.Bool(x == y.(bool))
	case string:
		if ys, ok := y.(symS); ok {
			return i.strEq(strBytes(x), ys.b)
		}
		return tt.Bool(x == y.(string))
	case structure:
		ys := y.(structure)
		tStruct := t.Underlying().(*types.Struct)
		r := tt.Bool(true)
		for k, n := 0, tStruct.NumFields(); k < n; k++ {
			if f := tStruct.Field(k); f.Name() != "_" {
				r = tt.And(r, i.equalsT(f.Type(), x[k], ys[k]))
				if r.isFalse() {
					return r
				}
			}
		}
		return r
	case array:
		ya := y.(array)
		tElt := t.Underlying().(*types.Array).Elem()
		r := tt.Bool(true)
		for k := range x {
			r = tt.And(r, i.equalsT(tElt, x[k], ya[k]))
			if r.isFalse() {
				return r
			}
		}
		return r
	case iface:
		yi := y.(iface)
		if x.t == nil || yi.t == nil {
			return tt.Bool(x.t == nil && yi.t == nil)
		}
		if !types.Identical(x.t, yi.t) {
			return tt.Bool(false)
		}
		if !types.Comparable(x.t) {
			panic(targetPanic{iface{i.runtimeErrorString, "runtime error: comparing uncomparable type " + x.t.String()}})
		}
		return i.equalsT(x.t, x.v, yi.v)
	case *value:
		return tt.Bool(x == y.(*value))
	case *echan:
		return tt.Bool(x == y.(*echan))
	case rtype:
		return tt.Bool(types.Identical(x.t, y.(rtype).t))
	}
	if _, ok := kindOf(x); ok {
		if ys, ok := y.(symI); ok {
			return tt.Eq(i.intTerm(x), ys.t)
		}
		return tt.Bool(asInt64(x) == asInt64(y))
	}
	switch x := x.(type) {
	case float32:
		return tt.Bool(x == y.(float32))
	case float64:
		return tt.Bool(x == y.(float64))
	case complex64:
		return tt.Bool(x == y.(complex64))
	case complex128:
		return tt.Bool(x == y.(complex128))
	case *nativeObj:
		return tt.Bool(x == y.(*nativeObj))
	}
	panic(engErr("equalsT: comparing uncomparable type %s (%T)", t, x))
}
