package main

// Deterministic run-to-block scheduler. Every target goroutine is a host
// goroutine, but exactly one holds the baton at any time. A goroutine gives up
// the baton only when it blocks (channel, select, mutex, WaitGroup, ndYield) or
// ends; the next one to run is the lowest-numbered runnable goroutine, or — when
// only goroutines parked at ndYield() remain — one chosen by a symbolic
// decision, so that schedules are explored by the same path machinery.

import (
	"fmt"
	"go/token"
	"go/types"
	"sync"

	"golang.org/x/tools/go/ssa"
)

type gor struct {
	id      int
	wake    chan struct{}
	pred    func() bool // nil = runnable
	yielded bool        // parked at ndYield
	done    bool
	depth   int
	frame   *frame
	what    string
	parent  *gor
	held    map[*syncSt]int // locks held: 1 read, 2 write
	vc      vclock          // happens-before through fork/join/channel edges (race detector)
}

type scheduler struct {
	gs      []*gor
	cur     *gor
	dead bool // path is over: every woken goroutine must unwind
	wg   sync.WaitGroup
}

type echan struct {
	vc     vclock
	buf    []value
	cap    int
	closed bool
	sendq  []*sendItem
	recvW  int // receivers currently blocked on this channel
}

type sendItem struct {
	v     value
	taken bool
}

func newScheduler() *scheduler {
	s := &scheduler{}
	g := &gor{id: 0, wake: make(chan struct{}, 1), what: "main", held: map[*syncSt]int{}, vc: vclock{0: 1}}
	s.gs = []*gor{g}
	s.cur = g
	return s
}

// spawn starts a new target goroutine; it first runs when the spawner blocks.
func (i *interpreter) spawn(fn value, args []value, pos token.Pos) {
	s := i.sched
	g := &gor{id: len(s.gs), wake: make(chan struct{}, 1), what: "spawned, not yet run", parent: s.cur, held: map[*syncSt]int{}}
	g.vc = s.cur.vc.copy()
	g.vc[g.id] = 1
	s.cur.vc[s.cur.id]++
	s.gs = append(s.gs, g)
	s.wg.Add(1)
	go func() {
		defer s.wg.Done()
		<-g.wake
		defer func() {
			r := recover()
			g.done = true
			if s.dead {
				return // the path is over; nothing to hand on
			}
			if r != nil {
				// hand the failure to the main goroutine, which ends the path
				i.ps.asyncFailure = r
				s.dead = true
				s.gs[0].wake <- struct{}{}
				return
			}
			i.switchAway(g, true)
		}()
		if s.dead {
			return
		}
		s.cur = g
		i.depth = 0
		i.curFrame = nil
		func() {
			defer func() {
				if r := recover(); r != nil {
					if tp, ok := r.(targetPanic); ok {
						// an uncaught panic in any goroutine crashes the program
						panic(pathEnd{"violation-panic", "panic in goroutine: " + i.panicString(tp)})
					}
					panic(r)
				}
			}()
			call(i, nil, pos, fn, args)
		}()
	}()
}

// block parks the current goroutine until pred() holds.
func (i *interpreter) block(pred func() bool, what string) {
	if pred() {
		return
	}
	g := i.sched.cur
	g.pred = pred
	g.what = what
	i.switchAway(g, false)
	g.pred = nil
}

// yield parks the current goroutine at a schedule point.
func (i *interpreter) yield() {
	g := i.sched.cur
	g.yielded = true
	i.switchAway(g, false)
}

// switchAway hands the baton to the next goroutine. If ending is true the
// caller is finished and does not wait to be resumed.
func (i *interpreter) switchAway(g *gor, ending bool) {
	s := i.sched
	g.depth = i.depth
	g.frame = i.curFrame
	next := i.pickNext()
	if next == nil {
		// nothing can run
		if ending {
			// a goroutine ended and everything else is blocked for ever: main is
			// blocked too (otherwise it would have been picked) → deadlock
			i.ps.asyncFailure = pathEnd{"violation-deadlock", i.deadlockReport()}
			s.dead = true
			if !s.gs[0].done {
				s.gs[0].wake <- struct{}{}
			}
			return
		}
		if g.id == 0 {
			panic(pathEnd{"violation-deadlock", i.deadlockReport()})
		}
		i.ps.asyncFailure = pathEnd{"violation-deadlock", i.deadlockReport()}
		s.dead = true
		s.gs[0].wake <- struct{}{}
		<-g.wake
		panic(pathEnd{"dead", ""})
	}
	if next == g {
		g.yielded = false
		return
	}
	s.cur = next
	next.yielded = false
	next.wake <- struct{}{}
	if ending {
		return
	}
	<-g.wake
	if s.dead {
		if g.id == 0 && i.ps.asyncFailure != nil {
			f := i.ps.asyncFailure
			i.ps.asyncFailure = nil
			panic(f)
		}
		panic(pathEnd{"dead", ""})
	}
	s.cur = g
	i.depth = g.depth
	i.curFrame = g.frame
}

func (i *interpreter) pickNext() *gor {
	s := i.sched
	for _, g := range s.gs {
		if g.done || g.yielded {
			continue
		}
		if g == s.cur && g.pred == nil {
			// the current goroutine is the one giving up the baton; it is only
			// a candidate if it is blocked on a predicate that became true
			continue
		}
		if g.pred == nil || g.pred() {
			return g
		}
	}
	// the current goroutine itself may be unblocked already
	if c := s.cur; c != nil && !c.done && !c.yielded && c.pred != nil && c.pred() {
		return c
	}
	// only yielded goroutines left: choose one symbolically
	var ys []*gor
	for _, g := range s.gs {
		if !g.done && g.yielded {
			ys = append(ys, g)
		}
	}
	if len(ys) == 0 {
		return nil
	}
	for k := 0; k < len(ys)-1; k++ {
		if i.ps.branch(i.ps.freshBool("sched")) {
			return ys[k]
		}
	}
	return ys[len(ys)-1]
}

func (i *interpreter) deadlockReport() string {
	s := "all goroutines are blocked:"
	for _, g := range i.sched.gs {
		if !g.done {
			s += fmt.Sprintf(" [g%d %s]", g.id, g.what)
		}
	}
	return s
}

// reapAll ends the path: every parked goroutine is woken and unwinds.
func (i *interpreter) reapAll() {
	s := i.sched
	s.dead = true
	for _, g := range s.gs[1:] {
		if !g.done {
			select {
			case g.wake <- struct{}{}:
			default:
			}
		}
	}
	s.wg.Wait()
}

// ---- channels

func (i *interpreter) chanSend(ch *echan, v value) {
	if ch == nil {
		i.block(func() bool { return false }, "send on nil channel")
	}
	i.sched.cur.release(&ch.vc)
	if ch.closed {
		panic(targetPanic{iface{i.runtimeErrorString, "send on closed channel"}})
	}
	if ch.cap > 0 {
		i.block(func() bool { return len(ch.buf) < ch.cap || ch.closed }, "chan send (buffer full)")
		if ch.closed {
			panic(targetPanic{iface{i.runtimeErrorString, "send on closed channel"}})
		}
		ch.buf = append(ch.buf, v)
		return
	}
	it := &sendItem{v: v}
	ch.sendq = append(ch.sendq, it)
	i.block(func() bool { return it.taken || ch.closed }, "chan send (no receiver)")
	if !it.taken && ch.closed {
		panic(targetPanic{iface{i.runtimeErrorString, "send on closed channel"}})
	}
}

func (ch *echan) canRecv() bool {
	return len(ch.buf) > 0 || len(ch.sendq) > 0 || ch.closed
}

func (ch *echan) takeRecv() (value, bool) {
	if len(ch.buf) > 0 {
		v := ch.buf[0]
		ch.buf = ch.buf[1:]
		return v, true
	}
	if len(ch.sendq) > 0 {
		it := ch.sendq[0]
		ch.sendq = ch.sendq[1:]
		it.taken = true
		return it.v, true
	}
	return nil, false // closed
}

func (i *interpreter) chanRecv(ch *echan) (value, bool) {
	if ch == nil {
		i.block(func() bool { return false }, "receive from nil channel")
	}
	if !ch.canRecv() {
		ch.recvW++
		i.block(ch.canRecv, "chan receive")
		ch.recvW--
	}
	i.sched.cur.acquire(ch.vc)
	return ch.takeRecv()
}

func (i *interpreter) chanClose(ch *echan) {
	if ch == nil {
		panic(targetPanic{iface{i.runtimeErrorString, "close of nil channel"}})
	}
	if ch.closed {
		panic(targetPanic{iface{i.runtimeErrorString, "close of closed channel"}})
	}
	i.sched.cur.release(&ch.vc)
	ch.closed = true
}

func (i *interpreter) doSelect(fr *frame, instr *ssa.Select) value {
	type scase struct {
		ch   *echan
		send bool
		v    value
	}
	var cases []scase
	for _, st := range instr.States {
		c := scase{ch: fr.get(st.Chan).(*echan), send: st.Dir == types.SendOnly}
		if c.send {
			c.v = fr.get(st.Send)
		}
		cases = append(cases, c)
	}
	ready := func() int {
		for k, c := range cases {
			if c.ch == nil {
				continue
			}
			if c.send {
				if c.ch.closed || (c.ch.cap > 0 && len(c.ch.buf) < c.ch.cap) || (c.ch.cap == 0 && c.ch.recvW > 0) {
					return k
				}
			} else if c.ch.canRecv() {
				return k
			}
		}
		return -1
	}
	chosen := ready()
	if chosen < 0 && instr.Blocking {
		for _, c := range cases {
			if c.ch != nil && !c.send {
				c.ch.recvW++
			}
		}
		i.block(func() bool { return ready() >= 0 }, "select")
		for _, c := range cases {
			if c.ch != nil && !c.send {
				c.ch.recvW--
			}
		}
		chosen = ready()
	}
	var recv value
	recvOk := false
	if chosen >= 0 {
		c := cases[chosen]
		if c.send {
			if c.ch.closed {
				panic(targetPanic{iface{i.runtimeErrorString, "send on closed channel"}})
			}
			if c.ch.cap > 0 {
				c.ch.buf = append(c.ch.buf, c.v)
			} else {
				// a receiver is waiting: hand over through the queue
				it := &sendItem{v: c.v}
				c.ch.sendq = append(c.ch.sendq, it)
				i.block(func() bool { return it.taken }, "select send handoff")
			}
		} else {
			recv, recvOk = c.ch.takeRecv()
		}
	}
	r := tuple{chosen, recvOk}
	for k, st := range instr.States {
		if st.Dir == types.RecvOnly {
			var v value
			if k == chosen && recvOk {
				v = recv
			} else {
				v = zero(st.Chan.Type().Underlying().(*types.Chan).Elem())
			}
			r = append(r, v)
		}
	}
	return r
}
