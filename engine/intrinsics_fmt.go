package main

// fmt / errors intrinsics (class A): formatting is re-implemented over engine
// values because the real fmt is reflection-driven. Differentially validated
// against the real fmt by the conformance self-test.

import (
	"fmt"
	"go/token"
	"go/types"
	"sort"
	"strconv"
	"strings"
)

func init() {
	intrinsics["fmt.Sprintf"] = func(fr *frame, args []value) value {
		return mkStr(fr.i.format(fr, args[0], args[1].([]value)))
	}
	intrinsics["fmt.Sprint"] = func(fr *frame, args []value) value {
		return mkStr(fr.i.sprint(fr, args[0].([]value), false))
	}
	intrinsics["fmt.Sprintln"] = func(fr *frame, args []value) value {
		return mkStr(fr.i.sprint(fr, args[0].([]value), true))
	}
	intrinsics["fmt.Errorf"] = func(fr *frame, args []value) value {
		i := fr.i
		msg := mkStr(i.format(fr, args[0], args[1].([]value)))
		// find %w operands
		var wrapped []value
		f := concStr(fr, args[0])
		argi := 0
		for k := 0; k < len(f); k++ {
			if f[k] != '%' {
				continue
			}
			k++
			for k < len(f) && strings.IndexByte("+-# 0123456789.", f[k]) >= 0 {
				k++
			}
			if k >= len(f) {
				break
			}
			if f[k] == '%' {
				continue
			}
			if f[k] == 'w' && argi < len(args[1].([]value)) {
				if e, ok := args[1].([]value)[argi].(iface); ok && e.t != nil {
					wrapped = append(wrapped, e)
				}
			}
			argi++
		}
		fmtPkg := i.prog.ImportedPackage("fmt")
		switch len(wrapped) {
		case 0:
			t := fmtPkg.Type("fmtError")
			if t == nil {
				// fmt.Errorf without %w returns *errors.errorString via errors.New
				ep := i.prog.ImportedPackage("errors")
				et := ep.Type("errorString").Object().Type()
				var cell value = structure{msg}
				return iface{types.NewPointer(et), &cell}
			}
		case 1:
			wt := fmtPkg.Type("wrapError").Object().Type()
			var cell value = structure{msg, wrapped[0]}
			return iface{types.NewPointer(wt), &cell}
		default:
			wt := fmtPkg.Type("wrapErrors").Object().Type()
			var cell value = structure{msg, []value(wrapped)}
			return iface{types.NewPointer(wt), &cell}
		}
		ep := i.prog.ImportedPackage("errors")
		et := ep.Type("errorString").Object().Type()
		var cell value = structure{msg}
		return iface{types.NewPointer(et), &cell}
	}
	writeTo := func(fr *frame, w value, s value) value {
		wi := w.(iface)
		if wi.t == nil {
			fr.i.rtPanic("invalid memory address or nil pointer dereference")
		}
		m := fr.i.prog.LookupMethod(wi.t, nil, "Write")
		if m == nil {
			panic(engErr("fmt.Fprint*: %s has no Write", wi.t))
		}
		b := strBytes(s)
		cp := make([]value, len(b))
		copy(cp, b)
		return call(fr.i, fr, token.NoPos, m, []value{wi.v, cp})
	}
	intrinsics["fmt.Fprintf"] = func(fr *frame, args []value) value {
		return writeTo(fr, args[0], mkStr(fr.i.format(fr, args[1], args[2].([]value))))
	}
	intrinsics["fmt.Fprint"] = func(fr *frame, args []value) value {
		return writeTo(fr, args[0], mkStr(fr.i.sprint(fr, args[1].([]value), false)))
	}
	intrinsics["fmt.Fprintln"] = func(fr *frame, args []value) value {
		return writeTo(fr, args[0], mkStr(fr.i.sprint(fr, args[1].([]value), true)))
	}
	noopIO := func(fr *frame, args []value) value {
		return tuple{int(0), iface{}}
	}
	intrinsics["fmt.Printf"] = noopIO
	intrinsics["fmt.Println"] = noopIO
	intrinsics["fmt.Print"] = noopIO

	itoa := func(fr *frame, args []value) value {
		if len(args) > 1 && asInt64(args[1]) != 10 {
			c := fr.i.concretize(args[0])
			k, _ := kindOf(c)
			if kindSigned(k) {
				return strconv.FormatInt(asInt64(c), int(asInt64(args[1])))
			}
			return strconv.FormatUint(uint64(asInt64(c)), int(asInt64(args[1])))
		}
		return mkStr(fr.i.decimal(args[0]))
	}
	intrinsics["strconv.Itoa"] = itoa
	intrinsics["strconv.FormatInt"] = itoa
	intrinsics["strconv.FormatUint"] = itoa
	intrinsics["errors.Is"] = func(fr *frame, args []value) value {
		return fr.i.errorsIs(fr, args[0].(iface), args[1].(iface))
	}
	intrinsics["errors.As"] = func(fr *frame, args []value) value {
		return fr.i.errorsAs(fr, args[0].(iface), args[1].(iface))
	}
	intrinsics["github.com/pkg/errors.callers"] = func(fr *frame, args []value) value {
		return zeroResult(fr.fn)
	}
}

var intrinsics = map[string]handlerFn{}

// callMethod invokes method name on receiver (t, v) if it exists.
func (i *interpreter) callMethod(fr *frame, t types.Type, v value, name string, args ...value) (value, bool) {
	if t == nil {
		return nil, false
	}
	ms := i.prog.MethodSets.MethodSet(t)
	for k := 0; k < ms.Len(); k++ {
		sel := ms.At(k)
		if sel.Obj().Name() == name {
			fn := i.prog.MethodValue(sel)
			if fn == nil {
				return nil, false
			}
			all := append([]value{v}, args...)
			return call(i, fr, token.NoPos, fn, all), true
		}
	}
	return nil, false
}

func hasMethod(i *interpreter, t types.Type, name string, nparams int, result string) bool {
	if t == nil {
		return false
	}
	ms := i.prog.MethodSets.MethodSet(t)
	for k := 0; k < ms.Len(); k++ {
		sel := ms.At(k)
		if sel.Obj().Name() != name {
			continue
		}
		sig := sel.Type().(*types.Signature)
		if sig.Params().Len() != nparams || sig.Results().Len() != 1 {
			return false
		}
		return sig.Results().At(0).Type().String() == result
	}
	return false
}

func (i *interpreter) panicString(tp targetPanic) string {
	defer func() {
		if r := recover(); r != nil {
			_ = r
		}
	}()
	if itf, ok := tp.v.(iface); ok {
		if itf.t == nil {
			return "panic(nil)"
		}
		b := i.formatOperand(nil, 'v', false, false, itf)
		s := mkStr(b)
		if cs, ok := s.(string); ok {
			return cs
		}
		return toString(s)
	}
	return toString(tp.v)
}

func (i *interpreter) sprint(fr *frame, args []value, ln bool) []value {
	var out []value
	prevString := false
	for k, a := range args {
		itf := a.(iface)
		isStr := false
		if itf.t != nil {
			if b, ok := itf.t.Underlying().(*types.Basic); ok && b.Kind() == types.String {
				isStr = true
			}
		}
		if k > 0 && (ln || (!isStr && !prevString)) {
			out = append(out, uint8(' '))
		}
		out = append(out, i.formatOperand(fr, 'v', false, false, itf)...)
		prevString = isStr
	}
	if ln {
		out = append(out, uint8('\n'))
	}
	return out
}

func bytesOf(s string) []value {
	b := make([]value, len(s))
	for k := 0; k < len(s); k++ {
		b[k] = s[k]
	}
	return b
}

// format implements Sprintf over engine values.
func (i *interpreter) format(fr *frame, fv value, args []value) []value {
	f := concStr(fr, fv)
	var out []value
	argi := 0
	for k := 0; k < len(f); k++ {
		c := f[k]
		if c != '%' {
			out = append(out, c)
			continue
		}
		k++
		if k >= len(f) {
			out = append(out, bytesOf("%!(NOVERB)")...)
			break
		}
		plus, sharp, minus, zeroPad := false, false, false, false
		for ; k < len(f); k++ {
			switch f[k] {
			case '+':
				plus = true
				continue
			case '#':
				sharp = true
				continue
			case '-':
				minus = true
				continue
			case '0':
				zeroPad = true
				continue
			case ' ':
				continue
			}
			break
		}
		width := -1
		for k < len(f) && f[k] >= '0' && f[k] <= '9' {
			if width < 0 {
				width = 0
			}
			width = width*10 + int(f[k]-'0')
			k++
		}
		prec := -1
		if k < len(f) && f[k] == '.' {
			k++
			prec = 0
			for k < len(f) && f[k] >= '0' && f[k] <= '9' {
				prec = prec*10 + int(f[k]-'0')
				k++
			}
		}
		if k >= len(f) {
			out = append(out, bytesOf("%!(NOVERB)")...)
			break
		}
		verb := f[k]
		if verb == '%' {
			out = append(out, uint8('%'))
			continue
		}
		if argi >= len(args) {
			out = append(out, bytesOf("%!"+string(verb)+"(MISSING)")...)
			continue
		}
		a := args[argi].(iface)
		argi++
		var piece []value
		if prec >= 0 {
			// only floats use precision in helm's formats; do them natively
			piece = i.formatNative(fr, f[strings.LastIndex(f[:k], "%"):k+1], a)
		} else {
			piece = i.formatOperand(fr, verb, plus, sharp, a)
		}
		if width > len(piece) {
			pad := make([]value, width-len(piece))
			for j := range pad {
				if zeroPad && !minus {
					pad[j] = uint8('0')
				} else {
					pad[j] = uint8(' ')
				}
			}
			if minus {
				piece = append(piece, pad...)
			} else {
				piece = append(pad, piece...)
			}
		}
		out = append(out, piece...)
	}
	if argi < len(args) {
		out = append(out, bytesOf("%!(EXTRA ")...)
		for j := argi; j < len(args); j++ {
			if j > argi {
				out = append(out, bytesOf(", ")...)
			}
			a := args[j].(iface)
			if a.t == nil {
				out = append(out, bytesOf("<nil>")...)
			} else {
				out = append(out, bytesOf(a.t.String()+"=")...)
				out = append(out, i.formatOperand(fr, 'v', false, false, a)...)
			}
		}
		out = append(out, uint8(')'))
	}
	return out
}

func (i *interpreter) formatNative(fr *frame, spec string, a iface) []value {
	switch v := a.v.(type) {
	case float64:
		return bytesOf(fmt.Sprintf(spec, v))
	case float32:
		return bytesOf(fmt.Sprintf(spec, v))
	case string:
		return bytesOf(fmt.Sprintf(spec, v))
	}
	panic(engErr("format %q of %T unsupported", spec, a.v))
}

func isErrorType(i *interpreter, t types.Type) bool {
	return hasMethod(i, t, "Error", 0, "string")
}

func isStringer(i *interpreter, t types.Type) bool {
	return hasMethod(i, t, "String", 0, "string")
}

// formatOperand renders one operand under a verb.
func (i *interpreter) formatOperand(fr *frame, verb byte, plus, sharp bool, a iface) []value {
	if a.t == nil {
		if verb == 'v' {
			return bytesOf("<nil>")
		}
		return bytesOf("%!" + string(verb) + "(<nil>)")
	}
	if verb == 'T' {
		return bytesOf(typeString(a.t))
	}
	if verb == 'p' {
		return bytesOf("0xc000000000")
	}
	// handle methods (Error / String) for the string-ish verbs
	switch verb {
	case 'v', 's', 'q', 'w':
		if !sharp {
			if isErrorType(i, a.t) {
				if p, ok := a.v.(*value); ok && p == nil {
					if _, isPtr := a.t.Underlying().(*types.Pointer); isPtr {
						// nil pointer receiver: fmt prints <nil> after recovering the panic
						return bytesOf("<nil>")
					}
				}
				if s, ok := i.callMethod(fr, a.t, a.v, "Error"); ok {
					return i.stringVerb(verb, strBytes(s))
				}
			} else if isStringer(i, a.t) {
				if p, ok := a.v.(*value); ok && p == nil {
					return bytesOf("<nil>")
				}
				if s, ok := i.callMethod(fr, a.t, a.v, "String"); ok {
					return i.stringVerb(verb, strBytes(s))
				}
			}
		}
	}
	return i.formatValue(fr, verb, plus, sharp, a.t, a.v, 0)
}

func typeString(t types.Type) string {
	return types.TypeString(t, func(p *types.Package) string { return p.Name() })
}

func (i *interpreter) stringVerb(verb byte, b []value) []value {
	if verb == 'q' {
		return i.quote(b)
	}
	return b
}

func (i *interpreter) quote(b []value) []value {
	conc := true
	for _, c := range b {
		if _, ok := c.(uint8); !ok {
			conc = false
		}
	}
	if conc {
		bs := make([]byte, len(b))
		for k, c := range b {
			bs[k] = c.(uint8)
		}
		return bytesOf(strconv.Quote(string(bs)))
	}
	// symbolic bytes: assume printable, non-quote, non-backslash ASCII (checked)
	tt := i.ps.tt
	out := []value{uint8('"')}
	for _, c := range b {
		if s, ok := c.(symI); ok {
			okc := tt.And(tt.bvcmp("bvule", tt.BV(8, 0x20), s.t), tt.bvcmp("bvult", s.t, tt.BV(8, 0x7f)))
			okc = tt.And(okc, tt.And(tt.Not(tt.Eq(s.t, tt.BV(8, '"'))), tt.Not(tt.Eq(s.t, tt.BV(8, '\\')))))
			if !i.ps.branch(okc) {
				cb := i.concretize(c).(uint8)
				q := strconv.Quote(string([]byte{cb}))
				out = append(out, bytesOf(q[1:len(q)-1])...)
				continue
			}
			out = append(out, c)
		} else {
			q := strconv.Quote(string([]byte{c.(uint8)}))
			out = append(out, bytesOf(q[1:len(q)-1])...)
		}
	}
	return append(out, uint8('"'))
}

// decimal renders an integer value (possibly symbolic) in base 10.
func (i *interpreter) decimal(v value) []value {
	s, ok := v.(symI)
	if !ok {
		k, _ := kindOf(v)
		if kindSigned(k) {
			return bytesOf(strconv.FormatInt(asInt64(v), 10))
		}
		return bytesOf(strconv.FormatUint(uint64(asInt64(v)), 10))
	}
	tt := i.ps.tt
	ps := i.ps
	w := s.t.w
	t := s.t
	var out []value
	if kindSigned(s.k) {
		if ps.branch(tt.bvcmp("bvslt", t, tt.BV(w, 0))) {
			out = append(out, uint8('-'))
			t = tt.Neg(t)
		}
	}
	if w < 64 {
		t = tt.ZExt(64, t)
	}
	// case split on the digit count (1..4), digits are fresh bytes tied to the
	// value by a linear constraint (multiplication by constants only)
	pow := []uint64{1, 10, 100, 1000, 10000, 100000, 1000000, 10000000, 100000000, 1000000000, 10000000000}
	const maxD = 10
	for d := 1; d <= maxD; d++ {
		if d < maxD && !ps.branch(tt.bvcmp("bvult", t, tt.BV(64, pow[d]))) {
			continue
		}
		if d == maxD {
			if !ps.branch(tt.bvcmp("bvult", t, tt.BV(64, pow[maxD]))) {
				// large: fall back to case splitting on the value
				c := ps.pickValue(t)
				return append(out, bytesOf(strconv.FormatUint(c, 10))...)
			}
		}
		sum := tt.BV(64, 0)
		digs := make([]value, d)
		for k := 0; k < d; k++ {
			dv := ps.newVar("fmt.digit", 8)
			ps.addPC(tt.And(tt.bvcmp("bvule", tt.BV(8, '0'), dv), tt.bvcmp("bvule", dv, tt.BV(8, '9'))))
			digs[k] = symI{dv, types.Uint8}
			val := tt.ZExt(64, tt.bvbin("bvsub", dv, tt.BV(8, '0')))
			sum = tt.bvbin("bvadd", sum, tt.bvbin("bvmul", val, tt.BV(64, pow[d-1-k])))
		}
		ps.addPC(tt.Eq(sum, t))
		return append(out, digs...)
	}
	panic("unreachable")
}

func (i *interpreter) formatValue(fr *frame, verb byte, plus, sharp bool, t types.Type, v value, depth int) []value {
	if depth > 8 {
		return bytesOf("...")
	}
	switch u := t.Underlying().(type) {
	case *types.Basic:
		switch {
		case u.Info()&types.IsString != 0:
			switch verb {
			case 'v', 's', 'w':
				if sharp {
					return i.quote(strBytes(v))
				}
				return strBytes(v)
			case 'q':
				return i.quote(strBytes(v))
			case 'x':
				cs := concStrI(i, v)
				return bytesOf(fmt.Sprintf("%x", cs))
			case 'd', 't', 'f', 'g', 'e', 'c', 'b', 'o', 'U':
				// wrong verb for a string: fmt prints %!verb(string=value)
				return append(bytesOf("%!"+string(rune(verb))+"(string="), append(strBytes(v), uint8(')'))...)
			}
		case u.Info()&types.IsBoolean != 0:
			b := i.concretize(v).(bool)
			if verb == 'v' || verb == 't' {
				return bytesOf(strconv.FormatBool(b))
			}
			return bytesOf(fmt.Sprintf("%%!%c(bool=%v)", verb, b))
		case u.Info()&types.IsInteger != 0:
			switch verb {
			case 'v', 'd':
				return i.decimal(v)
			case 's':
				return append(bytesOf("%!s("+typeString(t)+"="), append(i.decimal(v), uint8(')'))...)
			case 'c':
				c := i.concretize(v)
				return bytesOf(string(rune(asInt64(c))))
			case 'q':
				c := i.concretize(v)
				return bytesOf(strconv.QuoteRune(rune(asInt64(c))))
			case 'x', 'X', 'o', 'b', 'U':
				c := i.concretize(v)
				k, _ := kindOf(c)
				if kindSigned(k) {
					return bytesOf(fmt.Sprintf("%"+string(verb), asInt64(c)))
				}
				return bytesOf(fmt.Sprintf("%"+string(verb), uint64(asInt64(c))))
			}
		case u.Info()&types.IsFloat != 0:
			switch f := v.(type) {
			case float64:
				return bytesOf(fmt.Sprintf("%"+string(verb), f))
			case float32:
				return bytesOf(fmt.Sprintf("%"+string(verb), f))
			}
		case u.Kind() == types.UnsafePointer:
			return bytesOf("0xc000000000")
		}
	case *types.Pointer:
		p, _ := v.(*value)
		if p == nil {
			return bytesOf("<nil>")
		}
		if depth == 0 {
			switch u.Elem().Underlying().(type) {
			case *types.Struct, *types.Array, *types.Slice, *types.Map:
				return append([]value{uint8('&')}, i.formatValue(fr, verb, plus, sharp, u.Elem(), *p, depth+1)...)
			}
		}
		return bytesOf("0xc000000000")
	case *types.Struct:
		st := v.(structure)
		out := []value{uint8('{')}
		for k := 0; k < u.NumFields(); k++ {
			if k > 0 {
				out = append(out, uint8(' '))
			}
			if plus {
				out = append(out, bytesOf(u.Field(k).Name()+":")...)
			}
			out = append(out, i.formatField(fr, verb, plus, sharp, u.Field(k).Type(), st[k], depth+1)...)
		}
		return append(out, uint8('}'))
	case *types.Slice:
		sl := v.([]value)
		if b, ok := u.Elem().Underlying().(*types.Basic); ok && b.Kind() == types.Uint8 {
			switch verb {
			case 's':
				return sl
			case 'q':
				return i.quote(sl)
			case 'x':
				return bytesOf(fmt.Sprintf("%x", concStrI(i, mkStr(sl))))
			}
		}
		if sl == nil && sharp {
			return bytesOf(typeString(t) + "(nil)")
		}
		out := []value{uint8('[')}
		for k, e := range sl {
			if k > 0 {
				out = append(out, uint8(' '))
			}
			out = append(out, i.formatField(fr, verb, plus, sharp, u.Elem(), e, depth+1)...)
		}
		return append(out, uint8(']'))
	case *types.Array:
		ar := v.(array)
		out := []value{uint8('[')}
		for k, e := range ar {
			if k > 0 {
				out = append(out, uint8(' '))
			}
			out = append(out, i.formatField(fr, verb, plus, sharp, u.Elem(), e, depth+1)...)
		}
		return append(out, uint8(']'))
	case *types.Map:
		m := v.(*omap)
		type kv struct {
			k, v []value
			ks   string
		}
		var items []kv
		for _, e := range m.live() {
			kb := i.formatField(fr, verb, plus, sharp, u.Key(), e.key, depth+1)
			ks, _ := mkStr(kb).(string)
			items = append(items, kv{kb, i.formatField(fr, verb, plus, sharp, u.Elem(), e.val, depth+1), ks})
		}
		// fmt prints maps in key order
		sort.SliceStable(items, func(a, b int) bool { return items[a].ks < items[b].ks })
		out := bytesOf("map[")
		for k, it := range items {
			if k > 0 {
				out = append(out, uint8(' '))
			}
			out = append(out, it.k...)
			out = append(out, uint8(':'))
			out = append(out, it.v...)
		}
		return append(out, uint8(']'))
	case *types.Interface:
		itf := v.(iface)
		if itf.t == nil {
			return bytesOf("<nil>")
		}
		return i.formatOperandDepth(fr, verb, plus, sharp, itf, depth)
	case *types.Signature, *types.Chan:
		return bytesOf("0xc000000000")
	}
	panic(engErr("fmt: verb %%%c on %s (%T) unsupported", verb, t, v))
}

func (i *interpreter) formatOperandDepth(fr *frame, verb byte, plus, sharp bool, a iface, depth int) []value {
	switch verb {
	case 'v', 's', 'q':
		if isErrorType(i, a.t) {
			if s, ok := i.callMethod(fr, a.t, a.v, "Error"); ok {
				return i.stringVerb(verb, strBytes(s))
			}
		} else if isStringer(i, a.t) {
			if s, ok := i.callMethod(fr, a.t, a.v, "String"); ok {
				return i.stringVerb(verb, strBytes(s))
			}
		}
	}
	return i.formatValue(fr, verb, plus, sharp, a.t, a.v, depth)
}

// formatField: nested operands honour Error/String methods too.
func (i *interpreter) formatField(fr *frame, verb byte, plus, sharp bool, t types.Type, v value, depth int) []value {
	if _, ok := t.Underlying().(*types.Interface); !ok {
		switch verb {
		case 'v', 's', 'q':
			if isErrorType(i, t) || isStringer(i, t) {
				if p, ok := v.(*value); ok && p == nil {
					return bytesOf("<nil>")
				}
				return i.formatOperandDepth(fr, verb, plus, sharp, iface{t, v}, depth)
			}
		}
	}
	return i.formatValue(fr, verb, plus, sharp, t, v, depth)
}

func concStrI(i *interpreter, v value) string {
	switch s := v.(type) {
	case string:
		return s
	case symS:
		return i.concretize(s).(string)
	}
	panic(engErr("concStrI of %T", v))
}

// ---- errors.Is / errors.As

func (i *interpreter) errorsIs(fr *frame, err, target iface) value {
	if err.t == nil || target.t == nil {
		return err.t == nil && target.t == nil
	}
	comparable := types.Comparable(target.t)
	var walk func(e iface) value
	walk = func(e iface) value {
		for {
			if comparable && types.Identical(e.t, target.t) {
				eq := i.equalsV(e.t, e.v, target.v)
				if i.concretize(eq).(bool) {
					return true
				}
			}
			if hasMethod(i, e.t, "Is", 1, "bool") {
				if r, ok := i.callMethod(fr, e.t, e.v, "Is", target); ok {
					if i.concretize(r).(bool) {
						return true
					}
				}
			}
			if hasMethod(i, e.t, "Unwrap", 0, "error") {
				u, _ := i.callMethod(fr, e.t, e.v, "Unwrap")
				ui := u.(iface)
				if ui.t == nil {
					return false
				}
				e = ui
				continue
			}
			if hasMethod(i, e.t, "Unwrap", 0, "[]error") {
				u, _ := i.callMethod(fr, e.t, e.v, "Unwrap")
				for _, x := range u.([]value) {
					xi := x.(iface)
					if xi.t == nil {
						continue
					}
					if walk(xi).(bool) {
						return true
					}
				}
				return false
			}
			return false
		}
	}
	return walk(err)
}

func (i *interpreter) errorsAs(fr *frame, err, target iface) value {
	if err.t == nil {
		return false
	}
	if target.t == nil {
		panic(targetPanic{iface{i.runtimeErrorString, "errors: target cannot be nil"}})
	}
	pt, ok := target.t.Underlying().(*types.Pointer)
	if !ok {
		panic(targetPanic{iface{i.runtimeErrorString, "errors: target must be a non-nil pointer"}})
	}
	tp := target.v.(*value)
	if tp == nil {
		panic(targetPanic{iface{i.runtimeErrorString, "errors: target must be a non-nil pointer"}})
	}
	targetType := pt.Elem()
	itfT, isItf := targetType.Underlying().(*types.Interface)
	var walk func(e iface) bool
	walk = func(e iface) bool {
		for {
			if isItf {
				if types.Implements(e.t, itfT) {
					*tp = e
					return true
				}
			} else if types.Identical(e.t, targetType) {
				store(targetType, tp, e.v)
				return true
			}
			if hasMethod(i, e.t, "As", 1, "bool") {
				if r, ok := i.callMethod(fr, e.t, e.v, "As", target); ok && i.concretize(r).(bool) {
					return true
				}
			}
			if hasMethod(i, e.t, "Unwrap", 0, "error") {
				u, _ := i.callMethod(fr, e.t, e.v, "Unwrap")
				ui := u.(iface)
				if ui.t == nil {
					return false
				}
				e = ui
				continue
			}
			if hasMethod(i, e.t, "Unwrap", 0, "[]error") {
				u, _ := i.callMethod(fr, e.t, e.v, "Unwrap")
				for _, x := range u.([]value) {
					xi := x.(iface)
					if xi.t != nil && walk(xi) {
						return true
					}
				}
				return false
			}
			return false
		}
	}
	return walk(err)
}
