package main

// The harness API (nd* = nondeterministic inputs, v* = verdict functions).
// In the engine these are intercepted by name; natively (replay) they are the
// ordinary Go functions in harness/nd.go.tmpl reading $VERIF_REPLAY.

import (
	"fmt"
	"go/types"
	"strings"
)

var ndHandlers = map[string]handlerFn{}

func init() {
	ndHandlers["ndNative"] = func(fr *frame, args []value) value { return false }
	ndHandlers["ndBool"] = func(fr *frame, args []value) value {
		return symB{fr.i.ps.newVar(concStr(fr, args[0]), 0)}
	}
	ndHandlers["ndInt"] = func(fr *frame, args []value) value {
		return symI{fr.i.ps.newVar(concStr(fr, args[0]), 64), types.Int}
	}
	ndHandlers["ndInt64"] = func(fr *frame, args []value) value {
		return symI{fr.i.ps.newVar(concStr(fr, args[0]), 64), types.Int64}
	}
	ndHandlers["ndUint64"] = func(fr *frame, args []value) value {
		return symI{fr.i.ps.newVar(concStr(fr, args[0]), 64), types.Uint64}
	}
	ndHandlers["ndInt32"] = func(fr *frame, args []value) value {
		return symI{fr.i.ps.newVar(concStr(fr, args[0]), 32), types.Int32}
	}
	ndHandlers["ndByte"] = func(fr *frame, args []value) value {
		return symI{fr.i.ps.newVar(concStr(fr, args[0]), 8), types.Uint8}
	}
	// ndIntRange(name, lo, hi): symbolic, constrained, then case-split → concrete int
	ndHandlers["ndIntRange"] = func(fr *frame, args []value) value {
		ps := fr.i.ps
		tt := ps.tt
		lo, hi := asInt64(args[1]), asInt64(args[2])
		v := ps.newVar(concStr(fr, args[0]), 64)
		ps.assume(tt.And(tt.bvcmp("bvsle", tt.BV(64, uint64(lo)), v), tt.bvcmp("bvsle", v, tt.BV(64, uint64(hi)))))
		for c := lo; c < hi; c++ {
			if ps.branch(tt.Eq(v, tt.BV(64, uint64(c)))) {
				return int(c)
			}
		}
		return int(hi)
	}
	ndHandlers["ndChoice"] = func(fr *frame, args []value) value {
		n := asInt64(args[1])
		return ndHandlers["ndIntRange"](fr, []value{args[0], int(0), int(n - 1)})
	}
	// ndString(name, n): string of n symbolic bytes
	ndHandlers["ndString"] = func(fr *frame, args []value) value {
		ps := fr.i.ps
		name := concStr(fr, args[0])
		n := int(asInt64(args[1]))
		if n == 0 {
			return ""
		}
		b := make([]value, n)
		k := ps.varSeq["str:"+name]
		ps.varSeq["str:"+name] = k + 1
		full := fmt.Sprintf("%s#%d", name, k)
		var ts []*Term
		for j := 0; j < n; j++ {
			t := ps.newVar(fmt.Sprintf("%s[%d]", full, j), 8)
			ts = append(ts, t)
			b[j] = symI{t, types.Uint8}
		}
		ps.strVars[full] = ts
		return symS{b}
	}
	// ndStringIn(name, n, alphabet): n symbolic bytes, each constrained (by one
	// non-forking path-condition conjunct) to the alphabet; "a-z" denotes a range,
	// a literal '-' must come first or last.
	ndHandlers["ndStringIn"] = func(fr *frame, args []value) value {
		ps := fr.i.ps
		tt := ps.tt
		s := ndHandlers["ndString"](fr, args[:2])
		alpha := concStr(fr, args[2])
		ss, ok := s.(symS)
		if !ok {
			return s
		}
		for _, c := range ss.b {
			t := c.(symI).t
			cond := tt.Bool(false)
			for k := 0; k < len(alpha); k++ {
				if k+2 < len(alpha) && alpha[k+1] == '-' {
					cond = tt.Or(cond, tt.And(tt.bvcmp("bvule", tt.BV(8, uint64(alpha[k])), t), tt.bvcmp("bvule", t, tt.BV(8, uint64(alpha[k+2])))))
					k += 2
					continue
				}
				cond = tt.Or(cond, tt.Eq(t, tt.BV(8, uint64(alpha[k]))))
			}
			ps.assume(cond)
		}
		return s
	}
	ndHandlers["vBound"] = func(fr *frame, args []value) value {
		if v, ok := fr.i.env.bounds[concStr(fr, args[0])]; ok {
			return v
		}
		return args[1]
	}
	ndHandlers["ndMapOrder"] = func(fr *frame, args []value) value {
		fr.i.ps.mapOrderSym = args[0].(bool)
		return nil
	}
	ndHandlers["ndRace"] = func(fr *frame, args []value) value {
		fr.i.raceOn(concStr(fr, args[0]))
		return nil
	}
	ndHandlers["ndYield"] = func(fr *frame, args []value) value {
		fr.i.yield()
		return nil
	}
	ndHandlers["vAssume"] = func(fr *frame, args []value) value {
		fr.i.ps.assume(fr.i.boolTerm(args[0]))
		return nil
	}
	ndHandlers["vAssert"] = func(fr *frame, args []value) value {
		ps := fr.i.ps
		site := concStr(fr, args[0])
		if v := ps.assert(site, fr.i.boolTerm(args[1])); v != nil {
			v.Stack = fr.i.stackOf(fr.caller)
			ps.pendingViolation = v
			panic(pathEnd{"violation", site})
		}
		return nil
	}
	ndHandlers["vTag"] = func(fr *frame, args []value) value {
		fr.i.ps.tag = concStr(fr, args[0])
		return nil
	}
	ndHandlers["vObserve"] = func(fr *frame, args []value) value {
		ps := fr.i.ps
		if len(ps.observed) < 400 {
			ps.observed = append(ps.observed, args[0])
		}
		return nil
	}
	ndHandlers["vExpectPanic"] = func(fr *frame, args []value) value {
		fr.i.ps.expectPanic = args[0].(bool)
		return nil
	}
	ndHandlers["vFail"] = func(fr *frame, args []value) value {
		ps := fr.i.ps
		site := concStr(fr, args[0])
		ps.obligations++
		ps.sitesHit[site]++
		v := ps.violation("assert", site, "vFail reached")
		v.Stack = fr.i.stackOf(fr.caller)
		ps.pendingViolation = v
		panic(pathEnd{"violation", site})
	}
	// vConcretize*: force a case split in the harness
	ndHandlers["vConcInt"] = func(fr *frame, args []value) value { return fr.i.concretize(args[0]) }
	ndHandlers["vConcBool"] = func(fr *frame, args []value) value { return fr.i.concretize(args[0]) }
	ndHandlers["vConcString"] = func(fr *frame, args []value) value { return fr.i.concretize(args[0]) }
	// vIsSym reports whether the engine holds a symbolic value (false natively)
	ndHandlers["vFreeze"] = func(fr *frame, args []value) value { return nil }
}

// concStr returns a concrete Go string from an engine string value.
func concStr(fr *frame, v value) string {
	switch s := v.(type) {
	case string:
		return s
	case symS:
		return fr.i.concretize(s).(string)
	}
	panic(engErr("concStr of %T", v))
}

func prefixIntrinsic(name string) handlerFn {
	if k := strings.LastIndex(name, "."); k >= 0 {
		base := name[k+1:]
		if h, ok := ndHandlers[base]; ok && strings.HasPrefix(name, "helm.sh/helm/") {
			return h
		}
	}
	// reflection is out of the engine's reach: fail loudly instead of interpreting
	// reflect's unsafe internals
	for _, p := range []string{"reflect.", "(reflect.", "(*reflect.", "internal/reflectlite.", "(internal/reflectlite.", "(*internal/reflectlite."} {
		if strings.HasPrefix(name, p) {
			n := name
			return func(fr *frame, args []value) value {
				panic(engErr("reflection is out of the engine's reach: %s", n))
			}
		}
	}
	// logging: no-ops returning zero values
	for _, p := range []string{"log/slog.", "(*log/slog.Logger).", "log.", "(*log.Logger).", "k8s.io/klog/v2.", "(k8s.io/klog/v2.Verbose)."} {
		if strings.HasPrefix(name, p) {
			return func(fr *frame, args []value) value { return zeroResult(fr.fn) }
		}
	}
	return nil
}

// stackOf renders the target call stack (innermost first).
func (i *interpreter) stackOf(fr *frame) []string {
	var out []string
	for f := fr; f != nil && len(out) < 12; f = f.caller {
		s := f.fn.String()
		if f.callpos.IsValid() {
			// position where this frame was called from
		}
		pos := i.prog.Fset.Position(f.fn.Pos())
		if pos.IsValid() {
			s += " @" + shortPath(pos.Filename) + fmt.Sprintf(":%d", pos.Line)
		}
		out = append(out, s)
	}
	return out
}
