#!/usr/bin/env python3
"""Regenerates MANIFEST.json from verifcfg.py + manifest_meta.py (single source of truth for what is claimed)."""
import json, sys, os
sys.path.insert(0, os.path.dirname(os.path.abspath(__file__)))
from verifcfg import CHECKS
from manifest_meta import META, NOT_APPLICABLE

ids = [json.loads(l)["id"] for l in open("properties.jsonl")]
checks = []
for pid in ids:
    if pid not in CHECKS or pid not in META:
        continue
    m = META[pid]
    # the registered bounds, straight from verifcfg.py (authoritative where the prose above differs)
    bl = []
    for r in CHECKS[pid]["runs"]:
        tiers = r.get("tiers", ["quick", "thorough"])
        q = json.dumps(r.get("bounds_quick") or {}, sort_keys=True) if "quick" in tiers else "not run"
        t = json.dumps(r.get("bounds_thorough") or {}, sort_keys=True) if "thorough" in tiers else "not run"
        bl.append("%s: quick %s, thorough %s" % ("+".join(r["entries"]), q, t))
    bounds_note = " Registered bounds per run (from verifcfg.py; {} = the harness has no size bound, every input dimension it names is explored in full): " + "; ".join(bl) + "."
    checks.append({
        "property_id": pid,
        "quick_cmd": "./check %s --tier quick" % pid,
        "thorough_cmd": "./check %s --tier thorough" % pid,
        "evidence_file": "/verif/evidence/%s.json" % pid,
        "replay_cmd_template": "./check %s --replay {path}" % pid,
        "engine": "gosym",
        "level_claimed": {"category": "model_checking", "text": m["text"], "design_ref": m["design_ref"]},
        "level_note": m["note"] + bounds_note,
        "technique": m.get("technique", "symbolic execution of the real go/ssa code (gosym) + SMT (z3, QF_BV); counterexamples replayed natively"),
    })
na = [{"property_id": p, "reason": NOT_APPLICABLE[p]} for p in ids if p not in {c["property_id"] for c in checks}]
missing = [p for p in ids if p not in {c["property_id"] for c in checks} and p not in NOT_APPLICABLE]
assert not missing, missing
man = {
    "version": 1,
    "setup_cmd": "bash -c '. /verif/env.sh && cd /verif/engine && go build -o /verif/bin/gosym . && cd /verif && ./selftest'",
    "hooks": {"guard": "verif", "enable": "none needed: harnesses are injected with go/packages and `go test -overlay` overlays; no file is added to /repo",
              "baseline_off_cmd": "bash -c '. /verif/env.sh && cd /repo && go test -vet=off -count=1 -timeout 25m ./...'",
              "source_commits": [], "add_only": True},
    "engines": [{"name": "gosym", "path": "/verif/engine", "serves_properties": [c["property_id"] for c in checks],
                 "kind_free_text": "symbolic executor for go/ssa (fork of x/tools/go/ssa/interp with SMT-term scalars, re-execution path exploration, deterministic scheduler, optional lockset/vector-clock race analysis) + z3 over a pipe; Python driver ./check does native replay, known-finding matching and evidence"}],
    "checks": checks,
    "not_applicable": na,
    "notes": "Exit codes of ./check: 0 held, 1 VIOLATION (reproduced natively), 3 INCONCLUSIVE (never folded into 0). Genuine defects repaired in /repo are listed in known_findings.json as fixed: entries.",
}
json.dump(man, open("MANIFEST.json", "w"), indent=1)
print("MANIFEST.json:", len(checks), "checks,", len(na), "not applicable")
