"""Claim texts for MANIFEST.json. NOT_APPLICABLE holds every property not (yet) claimed, with the reason."""

META = {
    "C01": {
        "text": "Bounded symbolic model checking of helm's real action layer: every history of install/upgrade/rollback/uninstall up to the depth bound from the empty ledger, every flag (replace, atomic, cleanup-on-fail, keep-history, no-hooks, max-history, rollback target) a symbolic input, with injected failures of cluster calls, readiness/hook waits and storage writes and (thorough) a process death at any call into the cluster or the store; after every step the stored ledger must have unique strictly increasing revisions, each new revision exactly max+1, at most one deployed, and the success post-conditions of the property. Plus an inductive one-step check of pruning from an arbitrary ledger with 64-bit symbolic revisions. The whole of install.go/upgrade.go/rollback.go/uninstall.go/hooks.go/storage.go and the memory driver run as real SSA, including the worker goroutines.",
        "design_ref": "DESIGN.md §4 C01",
        "note": "Cuts: engine.Render (literal-YAML templates render to themselves; native replay uses the real engine), resource.Helper.Get (model cluster; native replay: fake REST transport), kube.Interface implemented by a model cluster (class E), storage wrapped by a fault/crash injector with copy-on-write persistence semantics over the real memory driver. Deterministic run-to-block goroutine schedule; context cancellation not explored. Bounds: depth 2, <=1 fault (quick); depth 3, <=1 fault, <=1 crash (thorough); 2 chart variants x hook/no hook; MaxHistory 0-2. Three known findings (storage-write failures that are only logged) are listed in known_findings.json.",
    },
    "C03": {
        "text": "Same machinery as C01 restricted to cluster-side single faults (every kube.Interface and Waiter method at every call position, hook readiness included): the solver-explored path tree covers every placement of the fault in every history up to the bound; on each failing path the operation must return an error, the revision it created must be failed (never pending, never deployed), the previously deployed revision keeps its status, and with --atomic the ledger is restored (failed install leaves no record, failed upgrade ends with a deployed highest revision). Found the rollback-leaves-pending-rollback defect, now fixed in /repo.",
        "design_ref": "DESIGN.md §4 C03",
        "note": "Same cuts and model cluster as C01. 'Never becomes ready' is the waiter returning an error (no timing). Cluster-content clauses (cleanup-on-fail deletes what was created; atomic restores the cluster to the previous manifest) are checked against the model cluster only. Bounds: depth 2 (quick) / 3 (thorough), exactly <=1 cluster fault per history.",
    },
    "C04": {
        "text": "Bounded symbolic model checking of the real strvals parser: for every --set string of the documented forms built from symbolic atoms, and for every byte string up to the bound over the grammar's alphabet, the solver shows the parsed structure is exactly the named path and that unrelated entries of the destination are untouched. Exhaustive over all byte values within the bound, which a table of examples cannot be.",
        "design_ref": "DESIGN.md §4 C04",
        "note": "Covers the --set/--set-string/--set-literal/--set-json(empty) grammar clause of C04 only (H04-set + frame). Trusted: go/ssa lowering, gosym interpreter and intrinsics (re-validated every run by native replay of sampled paths), z3. Bounds: atoms ≤4 bytes a-z, indices 0-3, arbitrary inputs ≤5 (quick) / ≤7 (thorough) bytes over a 15-symbol alphabet; ASCII only.",
    },
    "C06": {
        "text": "Bounded symbolic model checking of the four real Run methods with EVERY option field a symbolic input (DryRun, the six DryRunOption spellings, ClientOnly, CreateNamespace, Replace, Atomic, DisableHooks, SkipCRDs, IncludeCRDs, TakeOwnership, HideSecret, WaitForJobs, Force, CleanupOnFail, KeepHistory, MaxHistory, post-renderer present, IsUpgrade, SubNotes), charts with/without hook and CRD, histories empty / deployed / deployed+failed, under the documented dry-run predicate: on every feasible path the recorded write logs of the model cluster and of the store are empty, history and cluster are unchanged, and with ClientOnly the originally configured client sees no call at all. The solver prunes infeasible flag combinations; the rest is exhaustive.",
        "design_ref": "DESIGN.md §4 C06",
        "note": "Same cuts as C01 (engine.Render, resource.Helper.Get, model cluster, store wrapper). helm template's cobra layer and OutputDir file writes are outside the claim.",
    },
    "C07": {
        "text": "Bounded symbolic model checking of the real checkOwnership/requireValue/setMetadataVisitor/merge* with symbolic presence and symbolic string VALUES of the managed-by label and the two release annotations and symbolic release name/namespace: accepted iff all three match exactly; after the visitor every object carries the three keys and keeps its other metadata. Plus install and upgrade end to end against a model cluster that already holds the to-be-created object in each ownership state, every relevant flag symbolic: a foreign object without take-ownership is refused before any cluster or storage write and is left untouched; otherwise the created object carries the ownership metadata.",
        "design_ref": "DESIGN.md §4 C07",
        "note": "meta accessor runs on a harness object type embedding metav1.ObjectMeta (unstructured accessor paths are outside the claim); resource.Helper.Get cut to the model cluster (native replay: fake REST transport with the real decoder). The clause 'helm never deletes what it does not own' is only covered through the model cluster's Update/Delete semantics in C01/C03 runs. Bounds: label/annotation values <=4 bytes over {H,e,l,m,a,b}; six ownership states.",
    },
    "C08": {
        "text": "Bounded symbolic model checking of the real SortManifests/SplitManifests/manifestFile.sort/kind sorters: for every combination (within the bound) of document layout (separator variants, leading/trailing separators, partial files), head shape (kind known/unknown/empty, metadata nil, annotations nil/empty/other/hook), event lists (known, mixed case with spaces, unknown, mixed) and symbolic weight strings, each document lands exactly once in the manifest list or the hook list, is dropped iff it names an unknown event, partials never appear, content is unaltered, and both lists are ordered by the fixed kind order with unknown kinds last and stable within a kind.",
        "design_ref": "DESIGN.md §4 C08 (H08-part)",
        "note": "yaml.Unmarshal of each document head is cut (class S: marker -> harness-built head; native replay writes real YAML and uses the real parser). The separator regexp runs natively on concrete text. The apply-order barrier of kube.perform/batchPerform (H08-barrier) and NOTES.txt filtering in renderResources are outside this claim for now. Bounds: 1 file x <=2 documents (first fully general) for partition, <=3 documents over 5 kinds for ordering (quick); 2 files / 4 documents / 7 kinds (thorough).",
    },
    "C10": {
        "text": "One symbolic step from an arbitrary small store: records with symbolic valid names (the real ValidateReleaseName regexp decided symbolically), symbolic revisions and statuses, then one symbolic Create/Get/Update/Delete/History call through Storage, compared with a reference map; the whole observable state afterwards is compared too. The solver decides every assertion for all names/revisions within the bound; this is what found the '.v' key-parsing defect.",
        "design_ref": "DESIGN.md §4 C10",
        "note": "Memory backend only so far (Secrets/ConfigMaps backends and SQL are outside the claim). Bounds: ≤2 pre-existing records, names 1-3 bytes over {a,v,1,.,-} (quick) / 1-4 (thorough), revisions 0-9 (quick) / 0-99 (thorough), 3 statuses.",
    },
    "C12": {
        "text": "Bounded symbolic model checking of the real execHook/hookByWeight/deleteHookByPolicy on 1-3 hooks with symbolic 64-bit weights, symbolic event membership, symbolic delete-policy sets (incl. the empty default), CRD-kind hooks and a symbolic single readiness failure: the recorded create/wait/delete sequence must be the matching hooks in (weight, name) order, strictly one at a time, with before-hook-creation / hook-succeeded / hook-failed deletions exactly as the policies say and CRD hooks never deleted; plus end-to-end install/upgrade runs showing a failing pre-hook touches no release resource, a failing post-hook fails the operation, --no-hooks creates none, hooks never appear in the manifest.",
        "design_ref": "DESIGN.md §4 C12",
        "note": "Hook Create being rejected is covered by C03's fault model, log-output policies and test hooks are outside the claim. Bounds: <=2 hooks (quick) / <=3 (thorough), weights in [-2,2], <=1 readiness failure.",
    },
    "C14": {
        "text": "Bounded symbolic model checking that the schema gate is where the property says it is: real Install.Run/Upgrade.Run over a parent chart with two subcharts (one switched by a condition), per chart a symbolic 'has schema' and a symbolic 'values satisfy it', symbolic skip flag, charts with/without crds/: the operation fails iff not skipped and some ENABLED chart with a schema is violated, the error names each such chart, nothing is stored or sent to the cluster, the evaluator is invoked exactly once per enabled chart with a schema and never for a disabled one, and never when skipping. Native replays run the real jsonschema evaluator on the same documents.",
        "design_ref": "DESIGN.md §4 C14",
        "note": "The schema evaluator (santhosh-tekuri/jsonschema) is cut (class S) to an evaluator of the single schema shape the harness uses; agreement of helm's verdict with an independent evaluation over all schemas x all values is outside the claim, as are template and lint. One known finding: CRDs are created before the gate on install.",
    },
    "C16": {
        "text": "Bounded symbolic model checking of the real archive-name pipeline and size accounting of LoadArchiveFiles and of the real plugin cleanJoin + securejoin loop: for every header name (all byte strings up to the bound over the alphabet that matters: letters, '.', '/', backslash, ':', a drive letter) and every tar type flag, whatever is accepted is a clean relative path without '..' segment, backslash or drive prefix; for symbolic 64-bit sizes and limits, accepted archives respect the per-file and total limits and the stream is never asked for more than the remaining budget.",
        "design_ref": "DESIGN.md §4 C16",
        "note": "gzip/tar byte streams cut at gzip.NewReader / tar.Reader.Next / io.Copy (class S; native replay builds a real hand-written tar.gz); os.Lstat cut to 'nothing exists' (fresh destination). Outside the claim: symlinks already present in the destination, writeLock/--untar file writes, decompression at byte level, Extract's os.* calls. Bounds: names ≤6 (quick) / ≤8 (thorough) bytes; ≤2/≤3 entries, sizes and limits ≤40.",
    },
    "C18": {
        "text": "Bounded symbolic model checking of the real loadIndex / SortEntries / ChartVersions.Less / IndexFile.Get with the semver library's own Compare on symbolic version numbers: for every list of entries (valid, null, metadata-less, invalid version, prerelease) in every order and every assignment of version digits, only valid entries remain, they are sorted newest first, Get(\"\") is the highest stable version, Get(v) the identical string if present, Get(>=v) the highest satisfying release. Found (and the repo now fixes) the null-entry crash.",
        "design_ref": "DESIGN.md §4 C18",
        "note": "Cuts (class S): jsonOrYamlUnmarshal -> harness-built IndexFile (native replay: real JSON decoder); semver.NewVersion -> parser of the restricted grammar D.D.D[-rcN] with symbolic digits; NewConstraint/Check -> the three query forms used (\"*\", exact, >=V), written from the library's documented rules and cross-checked by native replays. Semver parsing and general constraint evaluation are outside the claim; resolver.Resolve and registry tag matching not yet covered. Bounds: <=2 (quick) / <=3 (thorough) entries, digits 0-3 / 0-9.",
    },
    "C20": {
        "text": "Implicit no-panic/no-deadlock/step-bound assertions of the engine on every path of the strvals entry points fed arbitrary symbolic bytes against destinations of every shape (scalar/list/map/nil under the addressed key).",
        "design_ref": "DESIGN.md §4 C20",
        "note": "Only the strvals entry points so far; the other C20 entry points are outside the claim until their harnesses land. Bounds: inputs ≤5 (quick) / ≤6 (thorough) bytes over a 15-symbol alphabet.",
    },
}

_NYB = "harness not built yet in this session (design in DESIGN.md §4); not claimed until its check runs clean"
NOT_APPLICABLE = {p: _NYB for p in ["C02", "C05", "C09", "C11", "C13", "C15", "C17", "C19"]}
