#!/bin/bash
# runs every registered check once (tier from $1, default quick) and prints one line per check
cd /verif
tier=${1:-quick}
for id in $(python3 -c "import json; print(' '.join(c['property_id'] for c in json.load(open('MANIFEST.json'))['checks']))"); do
  s=$(date +%s)
  out=$(./check $id --tier $tier 2>&1)
  rc=$?
  e=$(date +%s)
  echo "$id rc=$rc $((e-s))s $(echo "$out" | grep '^SUMMARY' | cut -c1-200)"
  echo "$out" | grep -E '^(VIOLATION|INCONCLUSIVE|KNOWN-FINDING)' | cut -c1-220
done
