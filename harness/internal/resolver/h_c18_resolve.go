package resolver

// C18 (last clause) — "dependency resolution locks each dependency to the
// highest indexed version satisfying its range". Runs the real Resolver.Resolve
// on a dependency that names a configured repository, over an index with
// symbolic version digits whose entries are sorted by the real
// IndexFile.SortEntries (what loading does), entries without URLs and
// prereleases included. Cuts (class S): repo.LoadIndexFile → the harness-built,
// sorted index (natively a real index file on disk); semver.NewVersion /
// NewConstraint / Constraints.Check → the restricted grammar D.D.D[-rcN] and the
// range form ">=D.D.D" / "*" (same model as H18Index, cross-checked natively);
// HashReq → a fixed digest.

import (
	"errors"
	"os"
	"path/filepath"
	"strings"
	"time"

	"github.com/Masterminds/semver/v3"

	chart "helm.sh/helm/v4/pkg/chart/v2"
	"helm.sh/helm/v4/pkg/repo"
)

//verif:stub helm.sh/helm/v4/pkg/repo.LoadIndexFile -> rsLoadIndexFile
//verif:stub github.com/Masterminds/semver/v3.NewVersion -> rsNewVersion
//verif:stub github.com/Masterminds/semver/v3.NewConstraint -> rsNewConstraint
//verif:stub (github.com/Masterminds/semver/v3.Constraints).Check -> rsConstraintCheck
//verif:stub helm.sh/helm/v4/internal/resolver.HashReq -> rsHashReq

var rsIndex *repo.IndexFile

func rsLoadIndexFile(path string) (*repo.IndexFile, error) { return rsIndex, nil }
func rsHashReq(req, lock []*chart.Dependency) (string, error) { return "sha256:model", nil }

func rsNewVersion(s string) (*semver.Version, error) {
	if len(s) != 5 && len(s) != 9 {
		return nil, errors.New("Invalid Semantic Version")
	}
	if s[1] != '.' || s[3] != '.' {
		return nil, errors.New("Invalid Semantic Version")
	}
	for _, k := range []int{0, 2, 4} {
		if s[k] < '0' || s[k] > '9' {
			return nil, errors.New("Invalid Semantic Version")
		}
	}
	pre := ""
	if len(s) == 9 {
		if s[5:8] != "-rc" || s[8] < '0' || s[8] > '9' {
			return nil, errors.New("Invalid Semantic Version")
		}
		pre = s[6:]
	}
	return semver.New(uint64(s[0]-'0'), uint64(s[2]-'0'), uint64(s[4]-'0'), pre, ""), nil
}

var rsMin *semver.Version

func rsNewConstraint(c string) (*semver.Constraints, error) {
	rsMin = nil
	switch {
	case c == "*":
		return &semver.Constraints{}, nil
	case strings.HasPrefix(c, ">="):
		v, err := rsNewVersion(c[2:])
		if err != nil {
			return nil, err
		}
		rsMin = v
		return &semver.Constraints{}, nil
	}
	return nil, errors.New("improper constraint")
}

func rsConstraintCheck(cs semver.Constraints, v *semver.Version) bool {
	if v.Prerelease() != "" {
		return false
	}
	return rsMin == nil || !v.LessThan(rsMin)
}

func rsVersion(name string, pre bool) string {
	s := ndStringIn(name, 3, "0-"+string(rune('0'+vBound("maxdigit", 3))))
	b := []byte(s)
	v := string(b[0:1]) + "." + string(b[1:2]) + "." + string(b[2:3])
	if pre {
		v += "-rc" + string(rune('1'+ndChoice(name+".rc", 2)))
	}
	return v
}

func H18Resolve() {
	n := ndIntRange("entries", 1, vBound("entries", 3))
	type ent struct {
		version string
		pre     bool
		urls    bool
	}
	es := make([]ent, n)
	var cvs repo.ChartVersions
	for k := range es {
		es[k].pre = ndBool("prerelease")
		es[k].urls = ndBool("hasURLs")
		es[k].version = rsVersion("ver", es[k].pre)
		cv := &repo.ChartVersion{Metadata: &chart.Metadata{Name: "dep", Version: es[k].version, APIVersion: "v2"}}
		if es[k].urls {
			cv.URLs = []string{"dep-" + es[k].version + ".tgz"}
		}
		cvs = append(cvs, cv)
	}
	idx := repo.NewIndexFile()
	idx.Entries["dep"] = cvs
	idx.SortEntries()
	rng := "*"
	var qv *semver.Version
	if ndBool("lowerBound") {
		q := rsVersion("q", false)
		rng = ">=" + q
		qv, _ = semver.NewVersion(q)
	}
	dir := "/rs"
	if ndNative() {
		d, err := os.MkdirTemp("", "verif-rs")
		if err != nil {
			vrDiverged("no temp dir")
		}
		defer os.RemoveAll(d)
		dir = d
		idx.Generated = time.Unix(0, 0)
		if err := idx.WriteFile(filepath.Join(dir, "r-index.yaml"), 0o644); err != nil {
			vrDiverged("cannot write index")
		}
	} else {
		rsIndex = idx
	}
	r := New(filepath.Join(dir, "chart"), dir, nil)
	lock, err := r.Resolve([]*chart.Dependency{{Name: "dep", Version: rng, Repository: "http://repo.test/charts"}}, map[string]string{"dep": "r"})

	var best *semver.Version
	for _, e := range es {
		if !e.urls || e.pre {
			continue
		}
		v, _ := semver.NewVersion(e.version)
		if qv != nil && v.LessThan(qv) {
			continue
		}
		if best == nil || v.GreaterThan(best) {
			best = v
		}
	}
	if best == nil {
		vAssert("resolve/no-satisfying-version-is-an-error", err != nil)
	} else {
		vAssert("resolve/found", err == nil && lock != nil && len(lock.Dependencies) == 1)
		got, perr := semver.NewVersion(lock.Dependencies[0].Version)
		vAssert("resolve/locks-highest-satisfying-version", perr == nil && got.Equal(best) && got.Prerelease() == "")
		vAssert("resolve/keeps-name-and-repository", lock.Dependencies[0].Name == "dep" && lock.Dependencies[0].Repository == "http://repo.test/charts")
	}
	vObservef("entries=%d range=%s err=%v", n, rng, err != nil)
}
