package loader

// C15 (directory loading and .helmignore) — loading a chart directory applies
// the .helmignore rules: a file is part of the loaded chart iff neither it nor
// one of its parent directories is excluded, a directory rule skips the whole
// subtree, and the rest is loaded byte for byte into the right bucket. Runs the
// real LoadDir walk function, ignore.Parse / Rules.Ignore / AddDefaults and
// LoadFiles on a model directory tree with one symbolic rule line and a
// symbolic extra file. Cuts (class S): os.Stat / ignore.ParseFile (file open) /
// sympath.Walk / os.ReadFile → the model tree (natively a real temp directory).
// The oracle is the reference model of the rule syntax of H15Ignore.

import (
	"io/fs"
	"os"
	"path/filepath"
	"sort"
	"strings"
	"syscall"
	"time"

	"helm.sh/helm/v4/internal/sympath"
	chart "helm.sh/helm/v4/pkg/chart/v2"
	"helm.sh/helm/v4/pkg/ignore"
)

//verif:stub os.Stat -> dirStat
//verif:stub helm.sh/helm/v4/pkg/ignore.ParseFile -> dirParseFile
//verif:stub helm.sh/helm/v4/internal/sympath.Walk -> dirWalk
//verif:stub os.ReadFile -> dirReadFile

var _ = sympath.Walk

type dirNode struct {
	rel  string // slash-separated, relative to the chart root
	dir  bool
	data string
}

var (
	dirRoot   string
	dirNodes  []dirNode // sorted by rel
	dirIgnore string
	dirHasIgn bool
)

type dirInfo struct {
	name string
	dir  bool
	size int64
}

func (i dirInfo) Name() string { return i.name }
func (i dirInfo) Size() int64  { return i.size }
func (i dirInfo) Mode() fs.FileMode {
	if i.dir {
		return fs.ModeDir | 0o755
	}
	return 0o644
}
func (i dirInfo) ModTime() time.Time { return time.Time{} }
func (i dirInfo) IsDir() bool        { return i.dir }
func (i dirInfo) Sys() any           { return nil }

func dirStat(name string) (fs.FileInfo, error) {
	if dirHasIgn && name == dirRoot+"/.helmignore" {
		return dirInfo{".helmignore", false, int64(len(dirIgnore))}, nil
	}
	return nil, &fs.PathError{Op: "stat", Path: name, Err: syscall.ENOENT}
}
func dirParseFile(file string) (*ignore.Rules, error) { return ignore.Parse(strings.NewReader(dirIgnore)) }
func dirReadFile(name string) ([]byte, error) {
	for _, n := range dirNodes {
		if !n.dir && dirRoot+"/"+n.rel == name {
			return []byte(n.data), nil
		}
	}
	return nil, &fs.PathError{Op: "open", Path: name, Err: syscall.ENOENT}
}

// dirWalk: lexical pre-order walk with filepath.SkipDir semantics, like sympath.Walk on a tree without symlinks
func dirWalk(root string, fn filepath.WalkFunc) error {
	top := strings.TrimSuffix(root, "/")
	if err := fn(root, dirInfo{filepath.Base(top), true, 0}, nil); err != nil {
		if err == filepath.SkipDir {
			return nil
		}
		return err
	}
	skip := ""
	for _, n := range dirNodes {
		if skip != "" && strings.HasPrefix(n.rel, skip+"/") {
			continue
		}
		err := fn(top+"/"+n.rel, dirInfo{filepath.Base(n.rel), n.dir, int64(len(n.data))}, nil)
		if err == filepath.SkipDir {
			if n.dir {
				skip = n.rel
				continue
			}
			// SkipDir from a file: skip the remaining entries of its directory
			d := ""
			if i := strings.LastIndexByte(n.rel, '/'); i >= 0 {
				d = n.rel[:i]
			}
			skip = d
			if d == "" {
				return nil
			}
			continue
		}
		if err != nil {
			return err
		}
	}
	return nil
}

// ---- reference model of the rule syntax (same as in the ignore package's harness)
func dRefGlob(p, s string) bool {
	if p == "" {
		return s == ""
	}
	switch p[0] {
	case '*':
		for k := 0; k <= len(s); k++ {
			if dRefGlob(p[1:], s[k:]) {
				return true
			}
			if k < len(s) && s[k] == '/' {
				break
			}
		}
		return false
	case '?':
		return s != "" && s[0] != '/' && dRefGlob(p[1:], s[1:])
	}
	return s != "" && s[0] == p[0] && dRefGlob(p[1:], s[1:])
}
func dRefBase(p string) string {
	if i := strings.LastIndexByte(p, '/'); i >= 0 {
		return p[i+1:]
	}
	return p
}
func dRefIgnoreLine(line, p string, isDir bool) (decided, ignored bool) {
	rule := strings.TrimSpace(line)
	if rule == "" || rule[0] == '#' {
		return false, false
	}
	negate := false
	if rule[0] == '!' {
		negate, rule = true, rule[1:]
	}
	mustDir := false
	if strings.HasSuffix(rule, "/") {
		mustDir, rule = true, rule[:len(rule)-1]
	}
	if mustDir && !isDir {
		return negate, negate
	}
	var m bool
	switch {
	case strings.HasPrefix(rule, "/"):
		m = dRefGlob(rule[1:], p)
	case strings.Contains(rule, "/"):
		m = dRefGlob(rule, p)
	default:
		m = dRefGlob(rule, dRefBase(p))
	}
	if negate {
		return !m, !m
	}
	return m, m
}

// the user's line first, then helm's built-in default rule templates/.?*
func dRefIgnored(line, p string, isDir bool) bool {
	if d, ig := dRefIgnoreLine(line, p, isDir); d {
		return ig
	}
	_, ig := dRefIgnoreLine("templates/.?*", p, isDir)
	return ig
}

func H15Dir() {
	hasIgnore := ndBool("helmignore")
	line := ""
	if hasIgnore {
		line = ndStringIn("line", ndIntRange("line.len", 1, vBound("linelen", 3)), "as*#!/")
		vAssume(!strings.Contains(line, "**"))
		// outside the documented syntax: a rule with SEVERAL leading slashes. (helm's root-anchored
		// matcher strips one leading "/" from its pattern on every call, so "//a" is a different
		// pattern for the first file evaluated than for the later ones.)
		vAssume(!strings.HasPrefix(strings.TrimPrefix(line, "!"), "//"))
	}
	extra := []string{"a", "s", "sub/a", "sub/s", "templates/.a", "a#s"}[ndChoice("extra", 6)]
	nodes := []dirNode{
		{"Chart.yaml", false, "apiVersion: v2\nname: c\nversion: 0.1.0\n"},
		{"values.yaml", false, "k: v\n"},
		{"templates", true, ""},
		{"templates/t.yaml", false, "kind: T\n"},
		{extra, false, "extra-content"},
	}
	if strings.HasPrefix(extra, "sub/") {
		nodes = append(nodes, dirNode{"sub", true, ""})
	}
	sort.Slice(nodes, func(i, j int) bool { return nodes[i].rel < nodes[j].rel })
	root := "/chartdir/c"
	if ndNative() {
		d, err := os.MkdirTemp("", "verif-dir")
		if err != nil {
			vrDiverged("no temp dir")
		}
		defer os.RemoveAll(d)
		root = d
		for _, n := range nodes {
			if n.dir {
				os.MkdirAll(filepath.Join(root, n.rel), 0o755)
			}
		}
		for _, n := range nodes {
			if !n.dir {
				os.MkdirAll(filepath.Dir(filepath.Join(root, n.rel)), 0o755)
				os.WriteFile(filepath.Join(root, n.rel), []byte(n.data), 0o644)
			}
		}
		if hasIgnore {
			os.WriteFile(filepath.Join(root, ".helmignore"), []byte(line+"\n"), 0o644)
		}
	} else {
		dirRoot, dirNodes, dirIgnore, dirHasIgn = root, nodes, line+"\n", hasIgnore
	}
	c, err := LoadDir(root)

	// expected: a file is loaded iff neither it nor an ancestor directory is excluded
	included := func(rel string) bool {
		parts := strings.Split(rel, "/")
		for k := 1; k < len(parts); k++ {
			if dRefIgnored(line, strings.Join(parts[:k], "/"), true) {
				return false
			}
		}
		return !dRefIgnored(line, rel, false)
	}
	if !included("Chart.yaml") {
		vAssert("dir/chart-without-Chart.yaml-is-an-error", err != nil)
		return
	}
	vAssert("dir/loads", err == nil && c != nil && c.Name() == "c")
	hasT := false
	for _, t := range c.Templates {
		if t.Name == "templates/t.yaml" {
			hasT = string(t.Data) == "kind: T\n"
		}
	}
	vAssert("dir/template-loaded-iff-not-excluded", hasT == included("templates/t.yaml"))
	vAssert("dir/values-loaded-iff-not-excluded", (c.Values["k"] == "v") == included("values.yaml"))
	hasExtra := false
	for _, f := range append(append([]*chartFile{}, toFiles(c.Files)...), toFiles(c.Templates)...) {
		if f.name == extra {
			hasExtra = f.data == "extra-content"
		}
	}
	vAssert("dir/extra-file-loaded-iff-not-excluded", hasExtra == included(extra))
	vObservef("line=%q extra=%q t=%v extra=%v", line, extra, hasT, hasExtra)
}

type chartFile struct{ name, data string }

func toFiles(in []*chart.File) []*chartFile {
	var out []*chartFile
	for _, f := range in {
		out = append(out, &chartFile{f.Name, string(f.Data)})
	}
	return out
}

// H15DirBytes ("loading the same content from a directory and from an archive gives
// equal results") — for a file of 0..2 byte order marks followed by 0..taillen arbitrary
// symbolic bytes (invalid UTF-8 included) the directory loader hands LoadFiles exactly
// what the archive loader hands it for the same raw content: the raw bytes minus ONE
// leading UTF-8 byte order mark (archive.go: bytes.TrimPrefix(b.Bytes(), utf8bom),
// pinned on the archive side by H15RoundTrip), for a template and for a plain file
// alike, whatever follows the mark. Runs the real LoadDir walk function and LoadFiles
// on the model tree of H15Dir.
func H15DirBytes() {
	// 0..2 leading byte order marks (concrete) followed by 0..taillen arbitrary symbolic bytes
	body := strings.Repeat("\xEF\xBB\xBF", ndIntRange("boms", 0, 2)) + ndString("tail", ndIntRange("tail.len", 0, vBound("taillen", 2)))
	nodes := []dirNode{
		{"Chart.yaml", false, "apiVersion: v2\nname: c\nversion: 0.1.0\n"},
		{"files", true, ""},
		{"files/x", false, body},
		{"templates", true, ""},
		{"templates/t.txt", false, body},
	}
	root := "/chartdir/c"
	if ndNative() {
		d, err := os.MkdirTemp("", "verif-dirbytes")
		if err != nil {
			vrDiverged("no temp dir")
		}
		defer os.RemoveAll(d)
		root = d
		os.MkdirAll(filepath.Join(root, "files"), 0o755)
		os.MkdirAll(filepath.Join(root, "templates"), 0o755)
		for _, n := range nodes {
			if !n.dir {
				os.WriteFile(filepath.Join(root, n.rel), []byte(n.data), 0o644)
			}
		}
	} else {
		dirRoot, dirNodes, dirIgnore, dirHasIgn = root, nodes, "", false
	}
	c, err := LoadDir(root)
	vAssert("dirbytes/loads", err == nil && c != nil)
	if err != nil || c == nil {
		return
	}
	want := body
	if len(body) >= 3 && body[0] == 0xEF && body[1] == 0xBB && body[2] == 0xBF {
		want = body[3:]
	}
	vAssert("dirbytes/one-file-one-template", len(c.Files) == 1 && len(c.Templates) == 1)
	vAssert("dirbytes/file-as-the-archive-loader-would-load-it", c.Files[0].Name == "files/x" && string(c.Files[0].Data) == want)
	vAssert("dirbytes/template-as-the-archive-loader-would-load-it", c.Templates[0].Name == "templates/t.txt" && string(c.Templates[0].Data) == want)
	vObservef("%x -> %x", body, c.Files[0].Data)
}
