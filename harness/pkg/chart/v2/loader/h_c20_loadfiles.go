package loader

// C20 (chart content of any shape) — LoadFiles on a file list as an archive or a
// directory walk can produce it returns a chart or an error, never panics:
// besides a well-formed Chart.yaml, one entry whose name is symbolic text under
// `charts/` (plain files directly in charts/, nested paths, `_`- and `.`-prefixed
// names, names ending in .tgz with garbage content) or at the top level.

import "strings"

func H20LoadFiles() {
	files := []*BufferedFile{{Name: "Chart.yaml", Data: []byte("apiVersion: v2\nname: c\nversion: 0.1.0\n")}}
	if ndBool("withValues") {
		files = append(files, &BufferedFile{Name: "values.yaml", Data: []byte("k: v\n")})
	}
	prefix := []string{"charts/", "", "templates/", "charts/sub/"}[ndChoice("prefix", 4)]
	n := ndIntRange("name.len", 0, vBound("lfnamelen", 4))
	name := prefix + ndStringIn("name", n, "a/._tgz")
	vAssume(!strings.Contains(name, "//"))
	files = append(files, &BufferedFile{Name: name, Data: []byte("x")})
	c, err := LoadFiles(files)
	vAssert("loadfiles/returned-normally", err != nil || c != nil)
	vObservef("%q -> err=%v", name, err != nil)
}
