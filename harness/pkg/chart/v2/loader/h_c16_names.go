package loader

// C16 — chart archive loading: every file name exposed by a loaded chart is a
// clean relative path inside the chart, and the decompressed-size limits hold.
// Runs the real LoadArchiveFiles name pipeline and size accounting. The gzip /
// tar byte streams are cut (class S): the engine sees a list of (header, size)
// records; the native replay builds a real .tar.gz from the concretised model.

import (
	"fmt"
	"archive/tar"
	"bytes"
	"compress/gzip"
	"io"
	"path"
	"strings"
)

//verif:stub compress/gzip.NewReader -> stubGzipNewReader
//verif:stub (*compress/gzip.Reader).Close -> stubGzipClose
//verif:stub archive/tar.NewReader -> stubTarNewReader
//verif:stub (*archive/tar.Reader).Next -> stubTarNext
//verif:stub io.Copy -> stubIOCopy

type stubEntry struct {
	name     string
	typeflag byte
	size     int64
}

var (
	stubEntries []stubEntry
	stubPos     int
	stubCopied  []int64 // bytes handed to io.Copy per entry
	stubLimits  []int64 // limit of the LimitedReader per entry
)

func stubGzipNewReader(r io.Reader) (*gzip.Reader, error) { return &gzip.Reader{}, nil }
func stubGzipClose(z *gzip.Reader) error                    { return nil }
func stubTarNewReader(r io.Reader) *tar.Reader              { return &tar.Reader{} }
func stubTarNext(tr *tar.Reader) (*tar.Header, error) {
	if stubPos >= len(stubEntries) {
		return nil, io.EOF
	}
	e := stubEntries[stubPos]
	stubPos++
	tf := e.typeflag
	if tf == tar.TypeRegA { // what the real reader does with the legacy regular-file flag
		tf = tar.TypeReg
		if strings.HasSuffix(e.name, "/") {
			tf = tar.TypeDir
		}
	}
	return &tar.Header{Name: e.name, Typeflag: tf, Size: e.size, Mode: 0o644}, nil
}

// stubIOCopy models io.Copy(buffer, io.LimitReader(tarReader, limit)) without
// materialising data: it transfers min(limit, size of the current entry).
func stubIOCopy(dst io.Writer, src io.Reader) (int64, error) {
	lr := src.(*io.LimitedReader)
	e := stubEntries[stubPos-1]
	n := e.size
	if lr.N < n {
		n = lr.N
	}
	if n < 0 {
		n = 0
	}
	stubLimits = append(stubLimits, lr.N)
	stubCopied = append(stubCopied, n)
	return n, nil
}

// loadEntries runs LoadArchiveFiles on the entries: through the stubs in the
// engine, through a real tar.gz natively.
func loadEntries(es []stubEntry) ([]*BufferedFile, error) {
	if !ndNative() {
		stubEntries, stubPos, stubCopied, stubLimits = es, 0, nil, nil
		return LoadArchiveFiles(bytes.NewReader(nil))
	}
	var buf bytes.Buffer
	zw := gzip.NewWriter(&buf)
	for _, e := range es {
		sz := e.size
		if e.typeflag != tar.TypeReg {
			sz = 0
		}
		zw.Write(rawTarHeader(e.name, e.typeflag, sz))
		if sz > 0 {
			zw.Write(make([]byte, (sz+511)/512*512))
		}
	}
	zw.Write(make([]byte, 1024))
	zw.Close()
	return LoadArchiveFiles(&buf)
}

// rawTarHeader writes a ustar header block by hand so that names the Go tar
// writer refuses (trailing slash, backslashes, ...) can still be fed to the
// reader, as a hostile archive would.
func rawTarHeader(name string, typeflag byte, size int64) []byte {
	b := make([]byte, 512)
	copy(b[0:100], name)
	copy(b[100:108], "0000644\x00")
	copy(b[108:116], "0000000\x00")
	copy(b[116:124], "0000000\x00")
	copy(b[124:136], fmt.Sprintf("%011o\x00", size))
	copy(b[136:148], "00000000000\x00")
	copy(b[148:156], "        ")
	b[156] = typeflag
	if typeflag == tar.TypeSymlink {
		copy(b[157:257], "x")
	}
	copy(b[257:263], "ustar\x00")
	copy(b[263:265], "00")
	sum := 0
	for _, c := range b {
		sum += int(c)
	}
	copy(b[148:156], fmt.Sprintf("%06o\x00 ", sum))
	return b
}

func hasDotDotSegment(p string) bool {
	for _, seg := range strings.Split(p, "/") {
		if seg == ".." {
			return true
		}
	}
	return false
}

// H16Names: one entry whose header name is arbitrary over the alphabet that
// matters to the checks; whatever is accepted is a clean relative path.
func H16Names() {
	n := ndIntRange("n", 1, vBound("namelen", 6))
	name := ndStringIn("name", n, "ab./\\:C")
	tf := []byte{tar.TypeReg, tar.TypeSymlink, tar.TypeDir, tar.TypeXGlobalHeader, tar.TypeRegA}[ndChoice("typeflag", 5)]
	files, err := loadEntries([]stubEntry{{name: name, typeflag: tf, size: 0}})
	if err != nil {
		vAssert("names/rejected-has-no-files", len(files) == 0)
		return
	}
	vAssert("names/one-file", len(files) == 1)
	got := files[0].Name
	vAssert("names/non-empty", got != "" && got != ".")
	vAssert("names/clean", got == path.Clean(got))
	vAssert("names/not-absolute", !path.IsAbs(got) && got[0] != '/')
	vAssert("names/no-dotdot-segment", !hasDotDotSegment(got))
	vAssert("names/no-backslash", !strings.Contains(got, "\\"))
	vAssert("names/no-drive-prefix", !(len(got) >= 3 && got[1] == ':' && got[2] == '/' && ((got[0] >= 'a' && got[0] <= 'z') || (got[0] >= 'A' && got[0] <= 'Z'))))
	vObservef("accepted %q as %q", name, got)
}

// H16Size: 1..3 regular entries with symbolic sizes against symbolic (small)
// limits: accepted ⇒ every file ≤ file limit and the total < chart limit; the
// bytes requested from the stream never exceed the remaining budget.
func H16Size() {
	oldC, oldF := MaxDecompressedChartSize, MaxDecompressedFileSize
	defer func() { MaxDecompressedChartSize, MaxDecompressedFileSize = oldC, oldF }()
	maxv := int64(vBound("maxsize", 40))
	cs := ndInt64("chartlimit")
	fs := ndInt64("filelimit")
	vAssume(cs >= 1 && cs <= maxv && fs >= 1 && fs <= maxv)
	MaxDecompressedChartSize, MaxDecompressedFileSize = cs, fs
	k := ndIntRange("entries", 1, vBound("entries", 3))
	es := make([]stubEntry, k)
	total := int64(0)
	overFile := false
	for i := range es {
		sz := ndInt64("size")
		vAssume(sz >= 0 && sz <= maxv)
		es[i] = stubEntry{name: "c/" + string(rune('a'+i)), typeflag: tar.TypeReg, size: sz}
		total += sz
		if sz > fs {
			overFile = true
		}
	}
	files, err := loadEntries(es)
	if err == nil {
		vAssert("size/count", len(files) == k)
		vAssert("size/each-file-within-limit", !overFile)
		vAssert("size/total-below-chart-limit", total < cs)
	} else {
		// completeness: an archive within both limits is not rejected
		vAssert("size/no-false-reject", overFile || total >= cs)
	}
	if !ndNative() {
		budget := cs
		for i := range stubCopied {
			vAssert("size/requested-within-remaining-budget", stubLimits[i] <= budget && stubCopied[i] <= stubLimits[i])
			budget -= stubCopied[i]
		}
	}
}
