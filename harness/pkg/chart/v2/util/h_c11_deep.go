package util

// C11 (enablement, below the first level) — the condition of a dependency three
// levels down is read from the values DESTINED for its parent (a.b.c.enabled as
// seen from the root), never from an unrelated table that happens to have the
// same relative path at the top (b.c.enabled, c.enabled). Chain root → a → b → c,
// each link with a condition "<name>.enabled"; the destined switches and the
// decoys are symbolic (absent / true / false / string / table).

import (
	chart "helm.sh/helm/v4/pkg/chart/v2"
)

func H11Deep() {
	root := &chart.Chart{Metadata: &chart.Metadata{Name: "root", Version: "0.1.0", APIVersion: chart.APIVersionV2}, Values: map[string]interface{}{}}
	a, b, c := mkSub("a"), mkSub("b"), mkSub("c")
	b.Metadata.Dependencies = []*chart.Dependency{{Name: "c", Version: "0.1.0", Condition: "c.enabled"}}
	b.SetDependencies(c)
	a.Metadata.Dependencies = []*chart.Dependency{{Name: "b", Version: "0.1.0", Condition: "b.enabled"}}
	a.SetDependencies(b)
	root.Metadata.Dependencies = []*chart.Dependency{{Name: "a", Version: "0.1.0", Condition: "a.enabled"}}
	root.SetDependencies(a)

	set := func(m map[string]interface{}, v interface{}, path ...string) {
		for _, k := range path[:len(path)-1] {
			n, ok := m[k].(map[string]interface{})
			if !ok {
				n = map[string]interface{}{}
				m[k] = n
			}
			m = n
		}
		m[path[len(path)-1]] = v
	}
	vals := map[string]interface{}{}
	aEn, aP, _ := ndSwitchN("a.enabled", 3)
	if aP {
		set(vals, aEn, "a", "enabled")
	}
	bEn, bP, _ := ndSwitchN("a.b.enabled", 3)
	if bP {
		set(vals, bEn, "a", "b", "enabled")
	}
	cEn, cP, _ := ndSwitch("a.b.c.enabled")
	if cP {
		set(vals, cEn, "a", "b", "c", "enabled")
	}
	// decoys: same relative paths, but at the top of the values or one level too high
	if d, p, _ := ndSwitchN("decoy b.c.enabled", 3); p {
		set(vals, d, "b", "c", "enabled")
	}
	if d, p, _ := ndSwitchN("decoy c.enabled", 3); p {
		set(vals, d, "c", "enabled")
	}
	if d, p, _ := ndSwitchN("decoy a.c.enabled", 3); p {
		set(vals, d, "a", "c", "enabled")
	}
	if d, p, _ := ndSwitchN("decoy b.enabled", 3); p {
		set(vals, d, "b", "enabled")
	}
	err := ProcessDependencies(root, vals)
	vAssert("deep/noerr", err == nil)
	on := func(v interface{}, present bool) bool {
		if b, ok := v.(bool); ok && present {
			return b
		}
		return true
	}
	wantA := on(aEn, aP)
	wantB := wantA && on(bEn, bP)
	wantC := wantB && on(cEn, cP)
	find := func(c *chart.Chart, name string) *chart.Chart {
		if c == nil {
			return nil
		}
		for _, d := range c.Dependencies() {
			if d.Name() == name {
				return d
			}
		}
		return nil
	}
	ga := find(root, "a")
	gb := find(ga, "b")
	gc := find(gb, "c")
	vAssert("deep/first-level-iff-enabled", (ga != nil) == wantA)
	vAssert("deep/second-level-iff-enabled", (gb != nil) == wantB)
	vAssert("deep/third-level-iff-its-destined-switch", (gc != nil) == wantC)
	vObservef("a=%v b=%v c=%v", ga != nil, gb != nil, gc != nil)
}
