package util

// C15 (file names / buckets / bytes clause) — packaging a chart and loading it
// again preserves every template and every other file byte for byte, under the
// same name, in the same bucket, and the dependency tree. Runs the real
// writeTarContents / writeToTar / validateName and loader.LoadArchiveFiles /
// LoadFiles (incl. Chart.yaml through the real YAML codec on the concrete
// metadata). The tar and gzip byte streams are cut (class S) to a record list
// on both sides; natively a real tar.gz is written and read. File names are
// symbolic (a suffix over a small alphabet), file bodies are symbolic bytes.

import (
	"fmt"
	"archive/tar"
	"bytes"
	"compress/gzip"
	"io"

	chart "helm.sh/helm/v4/pkg/chart/v2"
	"helm.sh/helm/v4/pkg/chart/v2/loader"
)

//verif:stub (*archive/tar.Writer).WriteHeader -> c15WriteHeader
//verif:stub (*archive/tar.Writer).Write -> c15Write
//verif:stub compress/gzip.NewReader -> c15GzipNewReader
//verif:stub (*compress/gzip.Reader).Close -> c15GzipClose
//verif:stub archive/tar.NewReader -> c15TarNewReader
//verif:stub (*archive/tar.Reader).Next -> c15TarNext
//verif:stub io.Copy -> c15IOCopy

type c15Rec struct {
	name string
	body []byte
}

var c15Recs []c15Rec
var c15Pos int

func c15WriteHeader(w *tar.Writer, h *tar.Header) error {
	c15Recs = append(c15Recs, c15Rec{name: h.Name})
	return nil
}
func c15Write(w *tar.Writer, b []byte) (int, error) {
	r := &c15Recs[len(c15Recs)-1]
	r.body = append(r.body, b...)
	return len(b), nil
}
func c15GzipNewReader(r io.Reader) (*gzip.Reader, error) { return &gzip.Reader{}, nil }
func c15GzipClose(z *gzip.Reader) error                    { return nil }
func c15TarNewReader(r io.Reader) *tar.Reader              { return &tar.Reader{} }
func c15TarNext(tr *tar.Reader) (*tar.Header, error) {
	if c15Pos >= len(c15Recs) {
		return nil, io.EOF
	}
	r := c15Recs[c15Pos]
	c15Pos++
	return &tar.Header{Name: r.name, Typeflag: tar.TypeReg, Size: int64(len(r.body)), Mode: 0o644}, nil
}
func c15IOCopy(dst io.Writer, src io.Reader) (int64, error) {
	r := c15Recs[c15Pos-1]
	n, err := dst.Write(r.body)
	return int64(n), err
}

func saveAndLoad(c *chart.Chart) (*chart.Chart, error) {
	if !ndNative() {
		c15Recs, c15Pos = nil, 0
		if err := writeTarContents(&tar.Writer{}, c, ""); err != nil {
			return nil, err
		}
		files, err := loader.LoadArchiveFiles(bytes.NewReader(nil))
		if err != nil {
			return nil, err
		}
		return loader.LoadFiles(files)
	}
	var buf bytes.Buffer
	zw := gzip.NewWriter(&buf)
	tw := tar.NewWriter(zw)
	if err := writeTarContents(tw, c, ""); err != nil {
		return nil, err
	}
	tw.Close()
	zw.Close()
	return loader.LoadArchive(&buf)
}

func findFile(fs []*chart.File, name string) *chart.File {
	for _, f := range fs {
		if f.Name == name {
			return f
		}
	}
	return nil
}

func H15RoundTrip() {
	bodyLen := vBound("bodylen", 3)
	tname := "templates/" + ndStringIn("tname", ndIntRange("tname.len", 1, vBound("namelen", 2)), "ab_.") + ".yaml"
	fsuffix := ndStringIn("fname", ndIntRange("fname.len", 1, vBound("namelen", 2)), "ab_.")
	vAssume(fsuffix != "." && fsuffix != "..") // a single clean path element, as in every loaded chart
	fname := "files/" + fsuffix
	// names are single clean path elements, as in every loaded chart
	tbody := []byte(ndString("tbody", ndIntRange("tbody.len", 0, bodyLen)))
	fbody := []byte(ndString("fbody", ndIntRange("fbody.len", 0, bodyLen)))
	c := &chart.Chart{Metadata: &chart.Metadata{Name: "c", Version: "0.1.0", APIVersion: chart.APIVersionV2}}
	c.Templates = []*chart.File{{Name: tname, Data: tbody}}
	c.Files = []*chart.File{{Name: fname, Data: fbody}}
	dep := &chart.Chart{Metadata: &chart.Metadata{Name: "dep", Version: "0.2.0", APIVersion: chart.APIVersionV2}}
	dbody := []byte(ndString("dbody", ndIntRange("dbody.len", 0, 1)))
	dep.Templates = []*chart.File{{Name: "templates/d.yaml", Data: dbody}}
	c.SetDependencies(dep)

	hasBOM := func(b []byte) bool { return len(b) >= 3 && b[0] == 0xEF && b[1] == 0xBB && b[2] == 0xBF }
	vTag(fmt.Sprintf("template-bom=%v file-bom=%v", hasBOM(tbody), hasBOM(fbody)))
	got, err := saveAndLoad(c)
	vAssert("roundtrip/loads", err == nil && got != nil)
	vAssert("roundtrip/metadata", got.Name() == "c" && got.Metadata.Version == "0.1.0" && got.Metadata.APIVersion == chart.APIVersionV2)
	vAssert("roundtrip/one-template-one-file", len(got.Templates) == 1 && len(got.Files) == 1)
	t := findFile(got.Templates, tname)
	vAssert("roundtrip/template-same-name-same-bucket", t != nil)
	vAssert("roundtrip/template-bytes-identical", bytes.Equal(t.Data, tbody))
	f := findFile(got.Files, fname)
	vAssert("roundtrip/file-same-name-same-bucket", f != nil)
	vAssert("roundtrip/file-bytes-identical", bytes.Equal(f.Data, fbody))
	deps := got.Dependencies()
	vAssert("roundtrip/dependency-tree", len(deps) == 1 && deps[0].Name() == "dep" && deps[0].Metadata.Version == "0.2.0")
	d := findFile(deps[0].Templates, "templates/d.yaml")
	vAssert("roundtrip/dependency-file", d != nil && bytes.Equal(d.Data, dbody) && len(deps[0].Templates) == 1)
}

// H15Name: a chart whose name is a path (contains a separator) is refused by the archive writer.
func H15Name() {
	name := []string{"a", "a/b", "../a", "a/", "c"}[ndChoice("name", 5)]
	c := &chart.Chart{Metadata: &chart.Metadata{Name: name, Version: "0.1.0", APIVersion: chart.APIVersionV2}}
	c15Recs, c15Pos = nil, 0
	var w *tar.Writer
	var buf bytes.Buffer
	if ndNative() {
		w = tar.NewWriter(&buf)
	} else {
		w = &tar.Writer{}
	}
	err := writeTarContents(w, c, "")
	vAssert("name/path-like-name-refused-plain-name-accepted", (err != nil) == (name != "a" && name != "c"))
}

// H15Tree: "the same tree of dependencies" — a symbolic tree shape up to four
// levels deep and two wide (root → {mid → {leaf → {deep}, leaf2}, side}), every
// chart with its own values and one template: the loaded tree has the same
// shape, the same names and versions at every position, and every chart keeps
// its own template and values.
type c15Shape struct {
	name     string
	children []*c15Shape
}

func c15Build(s *c15Shape, level int) *chart.Chart {
	c := &chart.Chart{Metadata: &chart.Metadata{Name: s.name, Version: fmt.Sprintf("0.%d.0", level), APIVersion: chart.APIVersionV2}}
	c.Templates = []*chart.File{{Name: "templates/" + s.name + ".yaml", Data: []byte("t-" + s.name)}}
	c.Raw = []*chart.File{{Name: "values.yaml", Data: []byte("owner: " + s.name + "\n")}}
	c.Values = map[string]interface{}{"owner": s.name}
	for _, ch := range s.children {
		c.AddDependency(c15Build(ch, level+1))
	}
	return c
}

func c15SameTree(s *c15Shape, level int, got *chart.Chart) bool {
	if got == nil || got.Name() != s.name || got.Metadata.Version != fmt.Sprintf("0.%d.0", level) {
		return false
	}
	t := findFile(got.Templates, "templates/"+s.name+".yaml")
	if t == nil || string(t.Data) != "t-"+s.name || len(got.Templates) != 1 {
		return false
	}
	if got.Values["owner"] != s.name {
		return false
	}
	deps := got.Dependencies()
	if len(deps) != len(s.children) {
		return false
	}
	for _, ch := range s.children {
		var match *chart.Chart
		for _, d := range deps {
			if d.Name() == ch.name {
				match = d
			}
		}
		if !c15SameTree(ch, level+1, match) {
			return false
		}
	}
	return true
}

func H15Tree() {
	root := &c15Shape{name: "root"}
	if ndBool("mid") {
		mid := &c15Shape{name: "mid"}
		root.children = append(root.children, mid)
		if ndBool("leaf") {
			leaf := &c15Shape{name: "leaf"}
			mid.children = append(mid.children, leaf)
			if ndBool("deep") {
				leaf.children = append(leaf.children, &c15Shape{name: "deep"})
			}
		}
		if ndBool("leaf2") {
			mid.children = append(mid.children, &c15Shape{name: "leaf2"})
		}
	}
	if ndBool("side") {
		side := &c15Shape{name: "side"}
		root.children = append(root.children, side)
		if ndBool("sideleaf") {
			// same name as a chart elsewhere in the tree
			side.children = append(side.children, &c15Shape{name: "leaf"})
		}
	}
	got, err := saveAndLoad(c15Build(root, 1))
	vAssert("tree/loads", err == nil && got != nil)
	vAssert("tree/same-dependency-tree-at-every-level", c15SameTree(root, 1, got))
	vObservef("deps=%d", len(got.Dependencies()))
}
