package util

// C11 (enablement clause) — a dependency is rendered iff the first of its
// condition paths that resolves to a boolean is true, or, when none does,
// unless at least one of its tags is false and none is true; a disabled
// dependency vanishes (chart tree, metadata, default values); an aliased
// dependency appears only under its alias. Runs the real ProcessDependencies /
// processDependencyEnabled / Tags / Conditions / getAliasDependency /
// PathValue / Table / CoalesceValues.

import (
	chart "helm.sh/helm/v4/pkg/chart/v2"
)

func mkSub(name string) *chart.Chart {
	return &chart.Chart{Metadata: &chart.Metadata{Name: name, Version: "0.1.0", APIVersion: chart.APIVersionV2},
		Values: map[string]interface{}{"subdefault": name}}
}

// a value at a condition path / tag: absent, true, false, non-bool scalar, table
func ndSwitch(tag string) (interface{}, bool, string) { return ndSwitchN(tag, 5) }

func ndSwitchN(tag string, n int) (interface{}, bool, string) {
	switch ndChoice(tag, n) {
	case 1:
		return true, true, "true"
	case 2:
		return false, true, "false"
	case 3:
		return "yes", true, "str"
	case 4:
		return map[string]interface{}{"x": true}, true, "table"
	}
	return nil, false, "absent"
}

func H11Enabled() { h11Enabled(0) }

// H11Alias: the aliased dependency and the grandchild, whose conditions may be
// answered by the user's values or by the charts' own defaults.
func H11Alias() { h11Enabled(1) }

func h11Enabled(focus int) {
	sw := func(tag string, n int, mine int) (interface{}, bool, string) {
		if focus != mine {
			return nil, false, "absent"
		}
		return ndSwitchN(tag, n)
	}
	parent := &chart.Chart{Metadata: &chart.Metadata{Name: "p", Version: "0.1.0", APIVersion: chart.APIVersionV2}, Values: map[string]interface{}{}}
	d1 := mkSub("d1")
	g := mkSub("g")
	d1.Metadata.Dependencies = []*chart.Dependency{{Name: "g", Version: "0.1.0", Condition: "g.enabled"}}
	d1.SetDependencies(g)
	sub := mkSub("sub")
	// the aliased chart's OWN defaults may answer its condition (second.enabled)
	subDef, subDefP, _ := sw("subdefaults.enabled", 3, 1)
	if subDefP {
		sub.Values["enabled"] = subDef
	}
	// ... and d1's own defaults may answer its grandchild's condition (d1.g.enabled)
	gDef, gDefP, _ := sw("d1defaults.g.enabled", 3, 1)
	if gDefP {
		d1.Values["g"] = map[string]interface{}{"enabled": gDef}
	}
	// d1: up to two condition paths and up to two tags; "sub" imported under the alias "second"
	conds, tags := "d1.enabled", []string(nil)
	if focus == 0 {
		conds = []string{"", "d1.enabled", "d1.enabled,flags.on", "flags.on,d1.enabled", " d1.enabled "}[ndChoice("d1.condition", 5)]
		tags = [][]string{nil, {"t1"}, {"t1", "t2"}}[ndChoice("d1.tags", 3)]
	}
	dep1 := &chart.Dependency{Name: "d1", Version: "0.1.0", Condition: conds, Tags: tags}
	dep2 := &chart.Dependency{Name: "sub", Version: "0.1.0", Alias: "second", Condition: "second.enabled"}
	parent.Metadata.Dependencies = []*chart.Dependency{dep1, dep2}
	parent.SetDependencies(d1, sub)

	vals := map[string]interface{}{}
	d1sec := map[string]interface{}{}
	en, enP, _ := ndSwitchN("values.d1.enabled", 5-2*focus)
	if enP {
		d1sec["enabled"] = en
	}
	fl, flP, _ := sw("values.flags.on", 5, 0)
	if flP {
		vals["flags"] = map[string]interface{}{"on": fl}
	}
	t1, t1P, _ := sw("values.tags.t1", vBound("minor", 5), 0)
	t2, t2P, _ := sw("values.tags.t2", vBound("minor", 5), 0)
	if t1P || t2P {
		tg := map[string]interface{}{}
		if t1P {
			tg["t1"] = t1
		}
		if t2P {
			tg["t2"] = t2
		}
		vals["tags"] = tg
	}
	gen, genP, _ := sw("values.d1.g.enabled", 5, 1)
	if genP {
		d1sec["g"] = map[string]interface{}{"enabled": gen}
	}
	if len(d1sec) > 0 {
		vals["d1"] = d1sec
	}
	sen, senP, _ := sw("values.second.enabled", 5, 1)
	if senP {
		vals["second"] = map[string]interface{}{"enabled": sen}
	}

	err := ProcessDependencies(parent, vals)
	vAssert("enabled/noerr", err == nil)

	// documented truth table
	decide := func(paths []string, lookup map[string]interface{}, tagVals []interface{}) bool {
		for _, p := range paths {
			if b, ok := lookup[p].(bool); ok {
				return b
			}
		}
		anyTrue, anyFalse := false, false
		for _, tv := range tagVals {
			if b, ok := tv.(bool); ok {
				if b {
					anyTrue = true
				} else {
					anyFalse = true
				}
			}
		}
		return !(anyFalse && !anyTrue)
	}
	lookup := map[string]interface{}{}
	if enP {
		lookup["d1.enabled"] = en
	}
	if flP {
		lookup["flags.on"] = fl
	}
	var paths []string
	switch conds {
	case "d1.enabled", " d1.enabled ":
		paths = []string{"d1.enabled"}
	case "d1.enabled,flags.on":
		paths = []string{"d1.enabled", "flags.on"}
	case "flags.on,d1.enabled":
		paths = []string{"flags.on", "d1.enabled"}
	}
	var tagVals []interface{}
	for _, t := range tags {
		if t == "t1" && t1P {
			tagVals = append(tagVals, t1)
		}
		if t == "t2" && t2P {
			tagVals = append(tagVals, t2)
		}
	}
	wantD1 := decide(paths, lookup, tagVals)
	// user values win over the chart's own defaults (a user table/string hides a default boolean)
	wantSecond := true
	if senP {
		if b, ok := sen.(bool); ok {
			wantSecond = b
		}
	} else if b, ok := subDef.(bool); ok && subDefP {
		wantSecond = b
	}
	wantG := wantD1
	if genP {
		if b, ok := gen.(bool); ok {
			wantG = wantD1 && b
		}
	} else if b, ok := gDef.(bool); ok && gDefP {
		wantG = wantD1 && b
	}

	has := func(c *chart.Chart, name string) *chart.Chart {
		for _, d := range c.Dependencies() {
			if d.Name() == name {
				return d
			}
		}
		return nil
	}
	hasMeta := func(c *chart.Chart, name string) bool {
		for _, d := range c.Metadata.Dependencies {
			if d.Name == name {
				return true
			}
		}
		return false
	}
	vTag("cond=" + conds)
	vAssert("enabled/d1-in-tree-iff-enabled", (has(parent, "d1") != nil) == wantD1)
	vAssert("enabled/d1-in-metadata-iff-enabled", hasMeta(parent, "d1") == wantD1)
	vAssert("alias/only-under-alias", has(parent, "sub") == nil && !hasMeta(parent, "sub"))
	vAssert("alias/present-iff-enabled", (has(parent, "second") != nil) == wantSecond && hasMeta(parent, "second") == wantSecond)
	if d := has(parent, "d1"); d != nil {
		vAssert("enabled/grandchild-iff-enabled", (has(d, "g") != nil) == wantG)
	}
	// a disabled chart's defaults do not reach the coalesced values
	cv, cerr := CoalesceValues(parent, vals)
	vAssert("enabled/coalesce-noerr", cerr == nil)
	d1v, _ := cv["d1"].(map[string]interface{})
	_, d1def := d1v["subdefault"]
	vAssert("enabled/defaults-present-iff-enabled", d1def == wantD1)
	sv, _ := cv["second"].(map[string]interface{})
	_, sdef := sv["subdefault"]
	vAssert("alias/defaults-under-alias-iff-enabled", sdef == wantSecond)
	_, leaked := cv["sub"]
	vAssert("alias/nothing-under-original-name", !leaked)
}
