package util

// C16 — expanding a chart archive (helm pull --untar, dependency build): Expand
// either fails or creates directories and files only inside the destination
// directory, whatever the chart's declared name and whatever (clean, relative —
// the post-condition H16Names establishes for LoadArchiveFiles) file names the
// archive exposes. Runs the real Expand and securejoin.SecureJoin. Cuts (class
// S): loader.LoadArchiveFiles → the harness' file list (natively a real tar.gz);
// yaml.Unmarshal of Chart.yaml → sets the symbolic chart name (natively real
// YAML with the name JSON-quoted); os.MkdirAll / os.WriteFile → a log of paths;
// os.Lstat → nothing exists (fresh destination; symlinks already present in the
// destination are outside this claim).

import (
	"archive/tar"
	"bytes"
	"compress/gzip"
	"encoding/json"
	"io"
	"io/fs"
	"os"
	"path/filepath"
	"strings"
	"syscall"

	chart "helm.sh/helm/v4/pkg/chart/v2"
	"helm.sh/helm/v4/pkg/chart/v2/loader"
	"sigs.k8s.io/yaml"
)

//verif:stub helm.sh/helm/v4/pkg/chart/v2/loader.LoadArchiveFiles -> xpLoadArchiveFiles
//verif:stub sigs.k8s.io/yaml.Unmarshal -> xpUnmarshal
//verif:stub os.MkdirAll -> xpMkdirAll
//verif:stub os.WriteFile -> xpWriteFile
//verif:stub os.Lstat -> xpLstat

var (
	xpFiles []*loader.BufferedFile
	xpName  string
	xpPaths []string
)

var _ = os.Lstat

func xpLoadArchiveFiles(in io.Reader) ([]*loader.BufferedFile, error) { return xpFiles, nil }
func xpUnmarshal(data []byte, o interface{}, opts ...yaml.JSONOpt) error {
	o.(*chart.Metadata).Name = xpName
	return nil
}
func xpMkdirAll(p string, perm os.FileMode) error {
	xpPaths = append(xpPaths, p)
	return nil
}
func xpWriteFile(p string, data []byte, perm os.FileMode) error {
	xpPaths = append(xpPaths, p)
	return nil
}
func xpLstat(name string) (fs.FileInfo, error) {
	return nil, &fs.PathError{Op: "lstat", Path: name, Err: syscall.ENOENT}
}

func H16Expand() {
	nl := ndIntRange("namelen", 0, vBound("xpnamelen", 4))
	name := ndStringIn("chartname", nl, "ab./\\")
	fl := ndIntRange("filelen", 1, vBound("xpfilelen", 3))
	file := ndStringIn("file", fl, "ab./")
	// what LoadArchiveFiles guarantees (H16Names): clean, relative, no '..' component
	vAssume(!strings.HasPrefix(file, "/") && !strings.HasSuffix(file, "/") && !strings.Contains(file, "//"))
	vAssume(!strings.HasPrefix(file, "..")) // the loader refuses every name that starts with ".." (also "..a")
	for _, seg := range strings.Split(file, "/") {
		vAssume(seg != ".." && seg != ".")
	}
	var base, dest string
	var err error
	var made []string
	if ndNative() {
		base, err = os.MkdirTemp("", "verif-c16e-")
		if err != nil {
			vrDiverged("no temp dir")
		}
		defer os.RemoveAll(base)
		dest = filepath.Join(base, "d")
		os.Mkdir(dest, 0o755)
		qn, _ := json.Marshal(name)
		var buf bytes.Buffer
		zw := gzip.NewWriter(&buf)
		tw := tar.NewWriter(zw)
		put := func(n string, b []byte) {
			tw.WriteHeader(&tar.Header{Name: "top/" + n, Typeflag: tar.TypeReg, Mode: 0o644, Size: int64(len(b))})
			tw.Write(b)
		}
		put("Chart.yaml", []byte("apiVersion: v2\nversion: 0.1.0\nname: "+string(qn)+"\n"))
		put(file, []byte("x"))
		tw.Close()
		zw.Close()
		err = Expand(dest, &buf)
		filepath.WalkDir(base, func(p string, d fs.DirEntry, werr error) error {
			if werr == nil && p != base {
				rel, _ := filepath.Rel(base, p)
				made = append(made, filepath.ToSlash(rel))
			}
			return nil
		})
	} else {
		base = "/verif-no-such-root"
		dest = base + "/d"
		xpName, xpPaths = name, nil
		xpFiles = []*loader.BufferedFile{{Name: "Chart.yaml", Data: []byte("x")}, {Name: file, Data: []byte("x")}}
		err = Expand(dest, bytes.NewReader(nil))
		for _, p := range xpPaths {
			vAssert("expand/writes-below-base", strings.HasPrefix(p, base+"/"))
			made = append(made, strings.TrimPrefix(p, base+"/"))
		}
	}
	for _, rel := range made {
		vAssert("expand/created-only-inside-destination", rel == "d" || strings.HasPrefix(rel, "d/"))
		vAssert("expand/no-dotdot-component", !strings.Contains("/"+rel+"/", "/../"))
	}
	if name == "" {
		vAssert("expand/nameless-chart-refused", err != nil)
	}
	vObservef("name=%q file=%q err=%v", name, file, err != nil)
}
