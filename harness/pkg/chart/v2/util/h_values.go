package util

// C04 (precedence / null deletion / non-mutation clauses) and C11 (subchart
// scoping and globals): the real CoalesceValues / coalesce / coalesceValues /
// coalesceDeps / coalesceGlobals / coalesceTablesFullKey / ToRenderValues on
// symbolic value trees. A tree node is symbolically absent, null, a scalar
// (symbolic 64-bit integer) or a table over the keys {a,b}; the oracle is
// computed per path BY LOOKUP in the sources, not by merging.

import (
	"reflect"

	chart "helm.sh/helm/v4/pkg/chart/v2"
)

type node struct {
	present bool
	v       interface{}
}

var treeKeys = []string{"a", "b"}

// ndNode draws a symbolic tree of at most the given depth.
func ndNode(name string, depth int, allowAbsent bool) node {
	// shapes: absent, null, scalar, [list — bound "lists"=1], [table — below the depth bound]
	lists := vBound("lists", 0) == 1
	n := 3
	if lists {
		n++
	}
	if depth > 0 {
		n++
	}
	c := ndChoice(name+".shape", n)
	if !allowAbsent && c == 0 {
		c = 2
	}
	switch {
	case c == 0:
		return node{}
	case c == 1:
		return node{true, nil}
	case c == 2:
		return node{true, ndInt64(name + ".scalar")}
	case c == 3 && lists:
		// a list: replaced as a whole, never merged element by element
		return node{true, []interface{}{ndInt64(name + ".elem"), "tail"}}
	}
	t := map[string]interface{}{}
	for j, k := range treeKeys {
		cd := depth - 1
		if j > 0 && vBound("slim", 1) == 1 && cd > 0 {
			cd = 0 // slim trees: only the first key nests deeper (bound "slim"=0 for full trees)
		}
		ch := ndNode(name+"."+k, cd, true)
		if ch.present {
			t[k] = ch.v
		}
	}
	return node{true, t}
}

func deepCopy(v interface{}) interface{} {
	switch t := v.(type) {
	case map[string]interface{}:
		c := make(map[string]interface{}, len(t))
		for k, e := range t {
			c[k] = deepCopy(e)
		}
		return c
	case []interface{}:
		c := make([]interface{}, len(t))
		for k, e := range t {
			c[k] = deepCopy(e)
		}
		return c
	}
	return v
}

// expectMerge: the value a reader sees at one position when `hi` (higher
// precedence) and `lo` (a default) both may define it: tables merge key by key,
// scalars replace, an explicit null removes a default.
func expectMerge(hi, lo node) node {
	if !hi.present {
		if !lo.present {
			return node{}
		}
		return node{true, deepCopy(lo.v)}
	}
	if hi.v == nil {
		if lo.present {
			return node{} // explicit null removes the default
		}
		return node{true, nil}
	}
	ht, hIsTable := hi.v.(map[string]interface{})
	if !hIsTable {
		return node{true, hi.v}
	}
	lt, lIsTable := lo.v.(map[string]interface{})
	if !lo.present || !lIsTable {
		return node{true, deepCopy(ht)}
	}
	out := map[string]interface{}{}
	keys := map[string]bool{}
	for k := range ht {
		keys[k] = true
	}
	for k := range lt {
		keys[k] = true
	}
	for k := range keys {
		hv, hp := ht[k]
		lv, lp := lt[k]
		m := expectMerge(node{hp, hv}, node{lp, lv})
		if m.present {
			out[k] = m.v
		}
	}
	return node{true, out}
}

// pruneNil drops null leaves at every depth; a node that is null itself becomes absent.
func pruneNil(n node) node {
	if !n.present || n.v == nil {
		return node{}
	}
	t, ok := n.v.(map[string]interface{})
	if !ok {
		return n
	}
	out := map[string]interface{}{}
	for k, v := range t {
		c := pruneNil(node{true, v})
		if c.present {
			out[k] = c.v
		}
	}
	return node{true, out}
}

func asTable(n node) map[string]interface{} {
	if t, ok := n.v.(map[string]interface{}); ok && n.present {
		return t
	}
	return map[string]interface{}{}
}

// H04Coalesce: one chart, user values over chart defaults.
func H04Coalesce() {
	d := vBound("depth", 2)
	user := map[string]interface{}{}
	defs := map[string]interface{}{}
	un := ndNode("user.k", d, true)
	dn := ndNode("def.k", d, true)
	if un.present {
		user["k"] = un.v
	}
	if dn.present {
		defs["k"] = dn.v
	}
	user["only-user"] = int64(1)
	defs["only-default"] = int64(2)
	c := &chart.Chart{Metadata: &chart.Metadata{Name: "c", Version: "0.1.0", APIVersion: chart.APIVersionV2}, Values: defs}
	userBefore, defsBefore := deepCopy(user), deepCopy(defs)

	got, err := CoalesceValues(c, user)
	vAssert("coalesce/noerr", err == nil)
	want := expectMerge(un, dn)
	gv, gp := got["k"]
	vAssert("coalesce/presence", gp == want.present)
	if gp {
		vAssert("coalesce/highest-precedence-source-wins", reflect.DeepEqual(gv, want.v))
	}
	vAssert("coalesce/unrelated-keys", got["only-user"] == int64(1) && got["only-default"] == int64(2))
	vAssert("coalesce/caller-values-not-modified", reflect.DeepEqual(user, userBefore))
	vAssert("coalesce/chart-defaults-not-modified", reflect.DeepEqual(defs, defsBefore) && reflect.DeepEqual(c.Values, defsBefore))

	// ToRenderValues goes through the same path and must not modify its inputs either
	top, err := ToRenderValues(c, user, ReleaseOptions{Name: "r", Namespace: "n", Revision: 1, IsInstall: true}, nil)
	vAssert("render/noerr", err == nil)
	rv, _ := top["Values"].(Values)
	r2, rp := rv["k"]
	vAssert("render/same-values", rp == want.present && (!rp || reflect.DeepEqual(r2, want.v)))
	vAssert("render/inputs-not-modified", reflect.DeepEqual(user, userBefore) && reflect.DeepEqual(c.Values, defsBefore))
}

// H11Scope: parent with subcharts A and B. The parent's section for a subchart
// overrides the subchart's defaults; globals flow down with the ancestor
// winning; siblings and the parent are unaffected by a subchart's defaults.
func H11Scope() {
	d := vBound("depth", 2)
	// global subtree (one key "g") in: user values, parent defaults, A's defaults, B's defaults
	var ug, pg, ag, bg, uax, pax, ax, px node
	if ndBool("globals") {
		// globals part: user / parent / A / B settings of global.g
		ug = ndNode("user.global.g", d, true)
		pg = ndNode("parent.global.g", vBound("pdepth", 0), true)
		ag = ndNode("A.global.g", d, true)
		bg = ndNode("B.global.g", 0, true)
	} else {
		// sections part: the parent's section for A, A's default, the parent's own x
		uax = ndNode("user.A.x", 1, true)
		pax = ndNode("parent.A.x", 1, true) // the parent chart's own values.yaml section for A
		// one combination is left out as ambiguous under the property's wording: the parent's
		// section holds a null or a scalar at a key for which the USER supplies a table. helm
		// merges (user ⊕ parent) ⊕ subchart default, so the user's table shadows the parent's
		// null/scalar and the subchart's default keys reappear under it; read per source ("null
		// removes a default", "scalars replace") the default table would be gone.
		if _, userTable := uax.v.(map[string]interface{}); userTable && pax.present {
			_, parentTable := pax.v.(map[string]interface{})
			vAssume(parentTable)
		}
		ax = ndNode("A.x", 1, true)
		px = ndNode("parent.x", 0, true)
		ug = ndNode("user.global.g", 0, true)
	}

	mk := func(g node, extra map[string]interface{}) map[string]interface{} {
		m := map[string]interface{}{}
		for k, v := range extra {
			m[k] = v
		}
		if g.present {
			m["global"] = map[string]interface{}{"g": g.v}
		}
		return m
	}
	aDefs := mk(ag, nil)
	if ax.present {
		aDefs["x"] = ax.v
	}
	bDefs := mk(bg, map[string]interface{}{"bonly": int64(7)})
	pDefs := mk(pg, nil)
	if px.present {
		pDefs["x"] = px.v
	}
	if pax.present {
		pDefs["A"] = map[string]interface{}{"x": pax.v}
	}
	user := mk(ug, nil)
	if uax.present {
		user["A"] = map[string]interface{}{"x": uax.v}
	}
	A := &chart.Chart{Metadata: &chart.Metadata{Name: "A", Version: "0.1.0", APIVersion: chart.APIVersionV2}, Values: aDefs}
	B := &chart.Chart{Metadata: &chart.Metadata{Name: "B", Version: "0.1.0", APIVersion: chart.APIVersionV2}, Values: bDefs}
	P := &chart.Chart{Metadata: &chart.Metadata{Name: "P", Version: "0.1.0", APIVersion: chart.APIVersionV2}, Values: pDefs}
	P.SetDependencies(A, B)
	aBefore, bBefore, pBefore, uBefore := deepCopy(aDefs), deepCopy(bDefs), deepCopy(pDefs), deepCopy(user)

	got, err := CoalesceValues(P, user)
	vAssert("scope/noerr", err == nil)

	// what the parent's templates see under .Values.global.g: user over parent defaults ONLY
	wantPG := expectMerge(ug, pg)
	gotGlobal, _ := got["global"].(map[string]interface{})
	pgv, pgp := gotGlobal["g"]
	vAssert("scope/parent-global-presence", pgp == wantPG.present)
	if pgp {
		vAssert("scope/parent-global-not-polluted-by-subchart-defaults", reflect.DeepEqual(pgv, wantPG.v))
	}
	// what A sees: the ancestor's setting wins over A's own default
	aVals, _ := got["A"].(map[string]interface{})
	aGlobal, _ := aVals["global"].(map[string]interface{})
	wantAG := expectMerge(wantPG, ag)
	agv, agp := aGlobal["g"]
	vAssert("scope/A-global-presence", agp == wantAG.present)
	if agp {
		vAssert("scope/A-global-ancestor-wins", reflect.DeepEqual(agv, wantAG.v))
	}
	// what B sees must not depend on A's defaults
	bVals, _ := got["B"].(map[string]interface{})
	bGlobal, _ := bVals["global"].(map[string]interface{})
	wantBG := expectMerge(wantPG, bg)
	bgv, bgp := bGlobal["g"]
	vAssert("scope/B-global-presence", bgp == wantBG.present)
	if bgp {
		vAssert("scope/B-global-independent-of-sibling", reflect.DeepEqual(bgv, wantBG.v))
	}
	// A's non-global x: parent's section for A over A's default; the parent's own x never shows up in A
	// precedence: user's section for A > the parent chart's section for A > A's own default
	// (a key that is present with a null value and an absent key are the same thing to a template)
	wantAX := pruneNil(expectMerge(uax, expectMerge(pax, ax)))
	axv, axp := aVals["x"]
	gotAX := pruneNil(node{axp, axv})
	vAssert("scope/A-x-presence", gotAX.present == wantAX.present)
	if gotAX.present {
		vAssert("scope/A-x-parent-section-over-default", reflect.DeepEqual(gotAX.v, wantAX.v))
	}
	_, leak := bVals["x"]
	vAssert("scope/parent-nonglobal-not-visible-in-subchart", !leak)
	vAssert("scope/B-keeps-own-default", bVals["bonly"] == int64(7))
	_, leak2 := aVals["bonly"]
	vAssert("scope/sibling-default-not-visible", !leak2)
	// inputs untouched
	vAssert("scope/inputs-not-modified", reflect.DeepEqual(aDefs, aBefore) && reflect.DeepEqual(bDefs, bBefore) && reflect.DeepEqual(pDefs, pBefore) && reflect.DeepEqual(user, uBefore))
}
