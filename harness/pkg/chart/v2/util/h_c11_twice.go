package util

// C11 (repeated dependencies) — one chart imported twice under two aliases:
// each copy is enabled by its own condition, appears under its own alias only,
// and sees its own section of the values plus the chart's defaults — never the
// other copy's values; disabling or configuring one copy does not change what
// the other one sees.

import (
	chart "helm.sh/helm/v4/pkg/chart/v2"
)

func H11Twice() {
	parent := &chart.Chart{Metadata: &chart.Metadata{Name: "p", Version: "0.1.0", APIVersion: chart.APIVersionV2}, Values: map[string]interface{}{}}
	sub := &chart.Chart{Metadata: &chart.Metadata{Name: "sub", Version: "0.1.0", APIVersion: chart.APIVersionV2},
		Values: map[string]interface{}{"subdefault": "d", "x": "default-x"}}
	parent.Metadata.Dependencies = []*chart.Dependency{
		{Name: "sub", Version: "0.1.0", Alias: "one", Condition: "one.enabled"},
		{Name: "sub", Version: "0.1.0", Alias: "two", Condition: "two.enabled"},
	}
	parent.SetDependencies(sub)
	vals := map[string]interface{}{}
	en1, p1, _ := ndSwitchN("one.enabled", 3)
	en2, p2, _ := ndSwitchN("two.enabled", 3)
	x1 := ndBool("one.x.set")
	x2 := ndBool("two.x.set")
	s1, s2 := map[string]interface{}{}, map[string]interface{}{}
	if p1 {
		s1["enabled"] = en1
	}
	if p2 {
		s2["enabled"] = en2
	}
	if x1 {
		s1["x"] = "x-for-one"
	}
	if x2 {
		s2["x"] = "x-for-two"
	}
	if len(s1) > 0 {
		vals["one"] = s1
	}
	if len(s2) > 0 {
		vals["two"] = s2
	}
	err := ProcessDependencies(parent, vals)
	vAssert("twice/noerr", err == nil)
	want1 := !p1 || en1.(bool)
	want2 := !p2 || en2.(bool)
	find := func(name string) *chart.Chart {
		for _, d := range parent.Dependencies() {
			if d.Name() == name {
				return d
			}
		}
		return nil
	}
	vAssert("twice/first-copy-iff-its-own-condition", (find("one") != nil) == want1)
	vAssert("twice/second-copy-iff-its-own-condition", (find("two") != nil) == want2)
	vAssert("twice/never-under-the-original-name", find("sub") == nil)
	if c1, c2 := find("one"), find("two"); c1 != nil && c2 != nil {
		vAssert("twice/copies-are-distinct-charts", c1 != c2 && c1.Metadata != c2.Metadata)
	}
	cv, cerr := CoalesceValues(parent, vals)
	vAssert("twice/coalesce-noerr", cerr == nil)
	see := func(alias string) (interface{}, interface{}, bool) {
		t, ok := cv[alias].(map[string]interface{})
		if !ok {
			return nil, nil, false
		}
		return t["x"], t["subdefault"], true
	}
	if want1 {
		x, d, ok := see("one")
		wantX := interface{}("default-x")
		if x1 {
			wantX = "x-for-one"
		}
		vAssert("twice/first-copy-sees-its-own-section-and-defaults", ok && x == wantX && d == "d")
	}
	if want2 {
		x, d, ok := see("two")
		wantX := interface{}("default-x")
		if x2 {
			wantX = "x-for-two"
		}
		vAssert("twice/second-copy-sees-its-own-section-and-defaults", ok && x == wantX && d == "d")
	}
	_, leaked := cv["sub"]
	vAssert("twice/nothing-under-the-original-name", !leaked)
}
