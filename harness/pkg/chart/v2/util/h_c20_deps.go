package util

// C20 — chart metadata and values of any decoded shape (what a YAML decoder can
// hand over for Chart.yaml `dependencies:` and for values) make Validate /
// ProcessDependencies / CoalesceValues / ToRenderValues return, with a result or
// an error, never crash: null and empty dependency entries, names and aliases
// that are empty or path-like, condition strings that walk through scalars,
// `tags` that is a scalar / list / map of non-booleans, a dependency listed
// without a chart, a chart without a listing, nil value maps.

import (
	chart "helm.sh/helm/v4/pkg/chart/v2"
)

func ndDepEntry(tag string) *chart.Dependency {
	switch ndChoice(tag+".shape", 4) {
	case 0:
		return nil // `- null` / `-` in the YAML list
	case 1:
		return &chart.Dependency{} // `- {}`
	}
	d := &chart.Dependency{Version: "0.1.0"}
	d.Name = []string{"sub", "", "other", "a/b"}[ndChoice(tag+".name", 4)]
	d.Alias = []string{"", "al", "a/b", "."}[ndChoice(tag+".alias", 4)]
	d.Condition = []string{"", "sub.enabled", "own.x.y", ",", "sub.enabled,,own"}[ndChoice(tag+".condition", 5)]
	if ndBool(tag + ".tags") {
		d.Tags = []string{"t1", ""}
	}
	return d
}

func H20Deps() {
	sub := &chart.Chart{Metadata: &chart.Metadata{Name: "sub", Version: "0.1.0", APIVersion: chart.APIVersionV2}, Values: map[string]interface{}{"k": "v"}}
	parent := &chart.Chart{Metadata: &chart.Metadata{Name: "parent", Version: "0.1.0", APIVersion: chart.APIVersionV2}, Values: map[string]interface{}{"own": "1"}}
	// the first entry is general; a second one comes from a short menu (duplicates, null, empty)
	if ndBool("firstEntry") {
		parent.Metadata.Dependencies = append(parent.Metadata.Dependencies, ndDepEntry("dep"))
	}
	switch ndChoice("secondEntry", 5) {
	case 1:
		parent.Metadata.Dependencies = append(parent.Metadata.Dependencies, nil)
	case 2:
		parent.Metadata.Dependencies = append(parent.Metadata.Dependencies, &chart.Dependency{})
	case 3:
		parent.Metadata.Dependencies = append(parent.Metadata.Dependencies, &chart.Dependency{Name: "sub", Version: "0.1.0"})
	case 4:
		parent.Metadata.Dependencies = append(parent.Metadata.Dependencies, &chart.Dependency{Name: "sub", Version: "0.1.0", Alias: "al"})
	}
	if ndBool("chartPresent") {
		parent.SetDependencies(sub)
	}
	var vals map[string]interface{}
	switch ndChoice("values", 6) {
	case 0:
		vals = nil
	case 1:
		vals = map[string]interface{}{}
	case 2:
		vals = map[string]interface{}{"tags": "yes", "sub": "scalar-where-a-table-is-expected"}
	case 3:
		vals = map[string]interface{}{"tags": []interface{}{"t1"}, "sub": map[string]interface{}{"enabled": "true"}}
	case 4:
		vals = map[string]interface{}{"tags": map[string]interface{}{"t1": "false", "": true}, "own": nil, "global": "not-a-table"}
	case 5:
		vals = map[string]interface{}{"tags": nil, "sub": nil, "global": map[string]interface{}{"g": nil}}
	}
	if err := parent.Validate(); err != nil {
		return // rejected at load time: fine
	}
	perr := ProcessDependencies(parent, vals)
	_, cerr := CoalesceValues(parent, vals)
	_, rerr := ToRenderValues(parent, vals, ReleaseOptions{Name: "r", Namespace: "n", Revision: 1, IsInstall: true}, nil)
	vAssert("deps/returned-normally", true)
	vObservef("perr=%v cerr=%v rerr=%v deps=%d", perr != nil, cerr != nil, rerr != nil, len(parent.Dependencies()))
}
