package util

// C11 (condition paths) — "the first condition path that resolves to a boolean
// decides": a path whose leading table does not exist does NOT resolve, whatever
// sits under the same trailing keys elsewhere in the values. Dependency d1 with
// the three-element condition features.d1.enabled; the table `features`, the
// table under it and the flag are symbolically present / absent / of another
// type, and decoys with the same trailing keys sit at the top of the values and
// in d1's own section.

import (
	chart "helm.sh/helm/v4/pkg/chart/v2"
)

func H11Path() {
	parent := &chart.Chart{Metadata: &chart.Metadata{Name: "p", Version: "0.1.0", APIVersion: chart.APIVersionV2}, Values: map[string]interface{}{}}
	d1 := mkSub("d1")
	parent.Metadata.Dependencies = []*chart.Dependency{{Name: "d1", Version: "0.1.0", Condition: "features.d1.enabled"}}
	parent.SetDependencies(d1)
	vals := map[string]interface{}{}
	var resolved interface{}
	switch ndChoice("features", 4) {
	case 1:
		vals["features"] = "scalar"
	case 2:
		vals["features"] = map[string]interface{}{}
	case 3:
		inner := map[string]interface{}{}
		switch ndChoice("features.d1", 3) {
		case 1:
			vals["features"] = map[string]interface{}{"d1": "scalar"}
		case 2:
			en, p, _ := ndSwitchN("features.d1.enabled", 4)
			if p {
				inner["enabled"] = en
				resolved = en
			}
			vals["features"] = map[string]interface{}{"d1": inner}
		default:
			vals["features"] = map[string]interface{}{"other": inner}
		}
	}
	// decoys: the same trailing keys where the path does not lead
	if d, p, _ := ndSwitchN("decoy d1.enabled", 3); p {
		vals["d1"] = map[string]interface{}{"enabled": d}
	}
	if d, p, _ := ndSwitchN("decoy enabled", 3); p {
		vals["enabled"] = d
	}
	err := ProcessDependencies(parent, vals)
	vAssert("path/noerr", err == nil)
	want := true
	if b, ok := resolved.(bool); ok {
		want = b
	}
	has := false
	for _, d := range parent.Dependencies() {
		if d.Name() == "d1" {
			has = true
		}
	}
	vAssert("path/enabled-unless-the-path-itself-resolves-to-false", has == want)
}
