package util

// C20 — dependency import-values of any shape (as a YAML decoder can produce
// them in Chart.yaml) make ProcessDependencies return, with a result or an
// error, never crash. Runs the real Metadata.Validate, ProcessDependencies,
// processDependencyEnabled, processImportValues, pathToMap, Values.Table.

import (
	chart "helm.sh/helm/v4/pkg/chart/v2"
)

func ndImportEntry(tag string) interface{} {
	field := func(name string) (interface{}, bool) {
		switch ndChoice(tag+"."+name, 4) {
		case 0:
			return nil, false // absent
		case 1:
			return []string{"data", "exports.data", ""}[ndChoice(tag+"."+name+".str", 3)], true
		case 2:
			return int64(ndChoice(tag+"."+name+".int", 2)), true
		}
		return nil, true // explicit null
	}
	switch ndChoice(tag+".shape", 5) {
	case 0:
		return []string{"data", "nosuch"}[ndChoice(tag+".str", 2)]
	case 1:
		return int64(1)
	case 2:
		return nil
	case 3:
		return []interface{}{"data"}
	}
	m := map[string]interface{}{}
	if v, ok := field("child"); ok {
		m["child"] = v
	}
	if v, ok := field("parent"); ok {
		m["parent"] = v
	}
	return m
}

func H20Import() {
	sub := &chart.Chart{Metadata: &chart.Metadata{Name: "sub", Version: "0.1.0", APIVersion: chart.APIVersionV2},
		Values: map[string]interface{}{"data": map[string]interface{}{"k": "v"}, "exports": map[string]interface{}{"data": map[string]interface{}{"e": "x"}}, "scalar": "s"}}
	parent := &chart.Chart{Metadata: &chart.Metadata{Name: "parent", Version: "0.1.0", APIVersion: chart.APIVersionV2}, Values: map[string]interface{}{"own": "1"}}
	dep := &chart.Dependency{Name: "sub", Version: "0.1.0"}
	n := ndIntRange("entries", 1, vBound("entries", 2))
	for k := 0; k < n; k++ {
		dep.ImportValues = append(dep.ImportValues, ndImportEntry("iv"))
	}
	parent.Metadata.Dependencies = []*chart.Dependency{dep}
	parent.SetDependencies(sub)
	if err := parent.Validate(); err != nil {
		return // rejected at load time: fine
	}
	err := ProcessDependencies(parent, map[string]interface{}{})
	vAssert("import/returned", true)
	if err == nil {
		vAssert("import/own-values-kept", parent.Values["own"] == "1")
	}
}
