package downloader

// C16 (last clause) — "updating a chart's dependencies writes its lock file only
// inside that chart's directory, never through a symlink planted at the lock
// file's path". Runs the real writeLock (both lock-file names). What sits at the
// lock file's path beforehand is symbolic: nothing, a regular file, a symlink to
// an existing file outside the chart, or a dangling symlink pointing outside.
// Cuts (class S): os.Lstat / os.Readlink / os.Stat / os.WriteFile / os.Rename →
// a model file system with POSIX symlink-following semantics for WriteFile;
// fileutil.AtomicWriteFile → rename semantics (replaces the link itself);
// yaml.Marshal → fixed bytes. Natively the real calls run in a temp directory.

import (
	"io"
	"io/fs"
	"os"
	"path/filepath"
	"syscall"
	"time"

	chart "helm.sh/helm/v4/pkg/chart/v2"
	"sigs.k8s.io/yaml"
)

//verif:stub os.Lstat -> lkLstat
//verif:stub os.Stat -> lkStat
//verif:stub os.Readlink -> lkReadlink
//verif:stub os.WriteFile -> lkWriteFile
//verif:stub helm.sh/helm/v4/internal/fileutil.AtomicWriteFile -> lkAtomicWrite
//verif:stub sigs.k8s.io/yaml.Marshal -> lkMarshal

var (
	_ = os.Lstat
	_ = os.Stat
	_ = os.Readlink
)

type lkNode struct {
	link   string // non-empty: symlink to this path
	data   string
	exists bool
}

type lkInfo struct {
	name string
	mode fs.FileMode
}

func (i lkInfo) Name() string       { return i.name }
func (i lkInfo) Size() int64        { return 0 }
func (i lkInfo) Mode() fs.FileMode  { return i.mode }
func (i lkInfo) ModTime() time.Time { return time.Time{} }
func (i lkInfo) IsDir() bool        { return false }
func (i lkInfo) Sys() any           { return nil }

var lkFS map[string]*lkNode

func lkLstat(p string) (fs.FileInfo, error) {
	n := lkFS[p]
	if n == nil || !n.exists {
		return nil, &fs.PathError{Op: "lstat", Path: p, Err: syscall.ENOENT}
	}
	if n.link != "" {
		return lkInfo{filepath.Base(p), fs.ModeSymlink | 0o777}, nil
	}
	return lkInfo{filepath.Base(p), 0o644}, nil
}
func lkResolve(p string) string {
	for k := 0; k < 4; k++ {
		n := lkFS[p]
		if n == nil || !n.exists || n.link == "" {
			return p
		}
		p = n.link
	}
	return p
}
func lkStat(p string) (fs.FileInfo, error) {
	q := lkResolve(p)
	n := lkFS[q]
	if n == nil || !n.exists {
		return nil, &fs.PathError{Op: "stat", Path: p, Err: syscall.ENOENT}
	}
	return lkInfo{filepath.Base(p), 0o644}, nil
}
func lkReadlink(p string) (string, error) {
	n := lkFS[p]
	if n == nil || !n.exists || n.link == "" {
		return "", &fs.PathError{Op: "readlink", Path: p, Err: syscall.EINVAL}
	}
	return n.link, nil
}
func lkWriteFile(p string, data []byte, perm os.FileMode) error {
	q := lkResolve(p) // open(2) without O_NOFOLLOW follows the link, creating a dangling link's target
	n := lkFS[q]
	if n == nil {
		n = &lkNode{}
		lkFS[q] = n
	}
	n.exists, n.data = true, string(data)
	return nil
}
func lkAtomicWrite(p string, r io.Reader, perm os.FileMode) error {
	b, _ := io.ReadAll(r)
	lkFS[p] = &lkNode{exists: true, data: string(b)} // rename(2) replaces the link itself
	return nil
}
func lkMarshal(o interface{}) ([]byte, error) { return []byte("digest: sha256:model\n"), nil }

var _ = yaml.Marshal

func H16Lock() {
	legacy := ndBool("legacy")
	planted := ndChoice("planted", 4) // 0 nothing, 1 regular file, 2 symlink to an existing outside file, 3 dangling symlink to outside
	other := ndBool("otherLockPresent")
	name, otherName := "Chart.lock", "requirements.lock"
	if legacy {
		name, otherName = otherName, name
	}
	base := "/verif-no-such-root"
	if ndNative() {
		var err error
		base, err = os.MkdirTemp("", "verif-c16l-")
		if err != nil {
			vrDiverged("no temp dir")
		}
		defer os.RemoveAll(base)
	}
	chartDir := filepath.Join(base, "chart")
	lockPath := filepath.Join(chartDir, name)
	otherPath := filepath.Join(chartDir, otherName)
	outside := filepath.Join(base, "outside.txt")
	if ndNative() {
		os.Mkdir(chartDir, 0o755)
		if planted == 2 {
			os.WriteFile(outside, []byte("precious"), 0o644)
		}
		switch planted {
		case 1:
			os.WriteFile(lockPath, []byte("old"), 0o644)
		case 2, 3:
			os.Symlink(outside, lockPath)
		}
		if other {
			os.WriteFile(otherPath, []byte("other"), 0o644)
		}
	} else {
		lkFS = map[string]*lkNode{}
		if planted == 2 {
			lkFS[outside] = &lkNode{exists: true, data: "precious"}
		}
		switch planted {
		case 1:
			lkFS[lockPath] = &lkNode{exists: true, data: "old"}
		case 2, 3:
			lkFS[lockPath] = &lkNode{exists: true, link: outside}
		}
		if other {
			lkFS[otherPath] = &lkNode{exists: true, data: "other"}
		}
	}
	vTag("planted=" + []string{"nothing", "regular-file", "symlink-to-outside-file", "dangling-symlink-to-outside"}[planted])
	err := writeLock(chartDir, &chart.Lock{Digest: "sha256:model"}, legacy)

	// read back: the outside file, the lock path itself (not following links), the other lock file
	var outsideData, otherData, lockData string
	outsideExists, lockIsLink, lockExists := false, false, false
	if ndNative() {
		if b, e := os.ReadFile(outside); e == nil {
			outsideExists, outsideData = true, string(b)
		}
		if fi, e := os.Lstat(lockPath); e == nil {
			lockExists = true
			lockIsLink = fi.Mode()&fs.ModeSymlink != 0
			if !lockIsLink {
				b, _ := os.ReadFile(lockPath)
				lockData = string(b)
			}
		}
		if b, e := os.ReadFile(otherPath); e == nil {
			otherData = string(b)
		}
	} else {
		if n := lkFS[outside]; n != nil && n.exists {
			outsideExists, outsideData = true, n.data
		}
		if n := lkFS[lockPath]; n != nil && n.exists {
			lockExists, lockIsLink, lockData = true, n.link != "", n.data
		}
		if n := lkFS[otherPath]; n != nil && n.exists {
			otherData = n.data
		}
	}
	if planted == 2 {
		vAssert("lock/never-written-through-planted-symlink", outsideExists && outsideData == "precious")
	} else {
		vAssert("lock/nothing-created-outside-chart-dir", !outsideExists)
	}
	if planted < 2 {
		vAssert("lock/written-inside-chart-dir", err == nil && lockExists && !lockIsLink && lockData != "" && lockData != "old")
	}
	if err == nil {
		vAssert("lock/success-means-regular-lock-file-in-chart-dir", lockExists && !lockIsLink && lockData != "")
	}
	if other {
		vAssert("lock/other-lock-file-untouched", otherData == "other")
	}
	vObservef("planted=%d legacy=%v err=%v link=%v", planted, legacy, err != nil, lockIsLink)
}
