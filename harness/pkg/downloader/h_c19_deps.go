package downloader

// C19 (dependency updates) — Manager.downloadAll for a dependency whose
// repository is a configured one with credentials: findChartURL picks the
// repository's credentials, the chart URL comes from the index (relative, same
// origin, other host, other port, look-alike host), DownloadTo resolves the
// owner repository again (scanReposForURL) and the real HTTPGetter decides.
// Shares the cuts of H19Download; additionally (class S) os.Stat/MkdirAll/
// RemoveAll (no-ops: the charts/ directory does not exist yet) and
// Manager.safeMoveDeps (moving the downloaded archives is not the subject).

import (
	"context"
	"io"
	"io/fs"
	"net"
	"net/http"
	"net/http/httptest"
	"os"
	"path/filepath"
	"strings"
	"syscall"

	chart "helm.sh/helm/v4/pkg/chart/v2"
	"helm.sh/helm/v4/pkg/getter"
	"helm.sh/helm/v4/pkg/repo"
)

//verif:stub os.Stat -> depStat
//verif:stub os.MkdirAll -> depMkdirAll
//verif:stub os.RemoveAll -> depRemoveAll
//verif:stub (*helm.sh/helm/v4/pkg/downloader.Manager).safeMoveDeps -> depSafeMove

func depStat(name string) (fs.FileInfo, error) {
	return nil, &fs.PathError{Op: "stat", Path: name, Err: syscall.ENOENT}
}
func depMkdirAll(p string, perm os.FileMode) error { return nil }
func depRemoveAll(p string) error                  { return nil }
func depSafeMove(m *Manager, deps []*chart.Dependency, source, dest string) error { return nil }

var depChartURLs = []string{
	"signtest-0.1.0.tgz",
	"http://repo.test/charts/signtest-0.1.0.tgz",
	"http://other.test/signtest-0.1.0.tgz",
	"http://repo.test:8080/signtest-0.1.0.tgz",
	"http://repo.test.evil.test/charts/signtest-0.1.0.tgz",
	"HTTP://OTHER.test/signtest-0.1.0.tgz", // spelled so that a textual comparison with the index entry can fail
}

func H19Deps() {
	which := ndChoice("chartURL", len(depChartURLs))
	passAll := ndBool("passCredentialsAll")
	hasCreds := ndBool("credentials")
	// how Chart.yaml spells the repository: its URL, the URL with a trailing slash, or the @alias
	repoRef := []string{dlRepoURL, dlRepoURL + "/", "@r"}[ndChoice("repositoryRef", 3)]
	entry := &repo.Entry{Name: "r", URL: dlRepoURL, PassCredentialsAll: passAll}
	if hasCreds {
		entry.Username, entry.Password = "u", "p"
	}
	idx := repo.NewIndexFile()
	idx.Entries["signtest"] = repo.ChartVersions{{Metadata: &chart.Metadata{Name: "signtest", Version: "0.1.0", APIVersion: "v1"}, URLs: []string{depChartURLs[which]}}}
	dir := "/dl"
	dlRequests = nil
	var tr *http.Transport
	if ndNative() {
		d, err := os.MkdirTemp("", "verif-deps")
		if err != nil {
			panic(err)
		}
		defer os.RemoveAll(d)
		dir = d
		rf := repo.NewFile()
		rf.Add(entry)
		rf.WriteFile(filepath.Join(dir, "repositories.yaml"), 0o644)
		os.MkdirAll(filepath.Join(dir, "cache"), 0o755)
		idx.WriteFile(filepath.Join(dir, "cache", "r-index.yaml"), 0o644)
		os.MkdirAll(filepath.Join(dir, "parent"), 0o755)
		chartBytes, _ := os.ReadFile("testdata/signtest-0.1.0.tgz")
		srv := httptest.NewServer(http.HandlerFunc(func(w http.ResponseWriter, r *http.Request) {
			dlRequests = append(dlRequests, dlReq{"http://" + r.Host + r.URL.Path, r.Header.Get("Authorization")})
			if strings.HasSuffix(r.URL.Path, ".prov") {
				http.NotFound(w, r)
				return
			}
			w.Write(chartBytes)
		}))
		defer srv.Close()
		dial := func(ctx context.Context, network, addr string) (net.Conn, error) {
			return (&net.Dialer{}).DialContext(ctx, "tcp", srv.Listener.Addr().String())
		}
		tr = &http.Transport{DialContext: dial, DialTLSContext: dial, DisableKeepAlives: true}
	} else {
		dlRepoFile = repo.NewFile()
		dlRepoFile.Add(entry)
		dlIndex = idx
		dlProvFound, dlProvValid, dlProvEmpty = false, false, false
	}
	newGetter := func(options ...getter.Option) (getter.Getter, error) {
		if tr != nil {
			options = append(options, getter.WithTransport(tr))
		}
		return getter.NewHTTPGetter(options...)
	}
	m := &Manager{Out: io.Discard, ChartPath: filepath.Join(dir, "parent"), Verify: VerifyNever,
		Getters:          getter.Providers{{Schemes: []string{"http", "https"}, New: newGetter}},
		RepositoryConfig: filepath.Join(dir, "repositories.yaml"), RepositoryCache: filepath.Join(dir, "cache")}
	deps := []*chart.Dependency{{Name: "signtest", Version: "0.1.0", Repository: repoRef}}
	if strings.HasPrefix(repoRef, "@") {
		// what Manager.Update does first: aliases are resolved to the repository URL
		names, rerr := m.resolveRepoNames(deps)
		vAssert("deps/alias-resolves", rerr == nil && names != nil)
		deps[0].Repository = dlRepoURL
	}
	err := m.downloadAll(deps)
	for _, r := range dlRequests {
		if r.auth == dlRepoAuth {
			toRepoOrigin := strings.HasPrefix(r.url, "http://repo.test/")
			vAssert("deps/creds-only-to-repository-origin", passAll || toRepoOrigin)
			vAssert("deps/creds-only-when-configured", hasCreds)
		}
	}
	vAssert("deps/chart-requested", len(dlRequests) >= 1)
	if hasCreds && which <= 1 && len(dlRequests) > 0 {
		vAssert("deps/creds-sent-to-own-repository", dlRequests[0].auth == dlRepoAuth)
	}
	vObservef("url=%d ref=%q err=%v requests=%d", which, repoRef, err != nil, len(dlRequests))
}
