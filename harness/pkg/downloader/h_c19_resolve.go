package downloader

// C19 (download path) and C17 (verification strategy) — ChartDownloader.DownloadTo
// end to end: ResolveChartVersion (repo/name references, absolute URLs owned by
// a repository, absolute URLs owned by none), the real HTTPGetter for the chart
// and for the .prov file (which re-uses the getter's sticky options), and the
// Verify switch. Every request that leaves is captured: the repository's Basic
// credentials may be on it only if pass-credentials is set or its scheme, host
// and port are the repository's. With verification required, a missing or
// invalid provenance makes DownloadTo fail.
// Cuts (class S): loadRepoConfig and repo.LoadIndexFile (harness-built objects;
// natively real YAML files in a temp dir), fileutil.AtomicWriteFile (no-op),
// VerifyChart (symbolic outcome; natively the real one on the repository's
// signed test chart, served intact or tampered), (*http.Client).Do (capture;
// natively a local test server behind overridden dialers).

import (
	"bytes"
	"context"
	"fmt"
	"io"
	"net"
	"net/http"
	"net/http/httptest"
	"os"
	"path/filepath"
	"strings"

	chart "helm.sh/helm/v4/pkg/chart/v2"
	"helm.sh/helm/v4/pkg/getter"
	"helm.sh/helm/v4/pkg/provenance"
	"helm.sh/helm/v4/pkg/repo"
)

//verif:stub helm.sh/helm/v4/pkg/downloader.loadRepoConfig -> dlLoadRepoConfig
//verif:stub helm.sh/helm/v4/pkg/repo.LoadIndexFile -> dlLoadIndexFile
//verif:stub helm.sh/helm/v4/internal/fileutil.AtomicWriteFile -> dlAtomicWrite
//verif:stub helm.sh/helm/v4/pkg/downloader.VerifyChart -> dlVerifyChart
//verif:stub (*net/http.Client).Do -> dlClientDo

type dlReq struct{ url, auth string }

var (
	dlRepoFile  *repo.File
	dlIndex     *repo.IndexFile
	dlRequests  []dlReq
	dlProvFound bool
	dlProvValid bool
	dlProvEmpty bool
)

func dlLoadRepoConfig(file string) (*repo.File, error) { return dlRepoFile, nil }
func dlLoadIndexFile(path string) (*repo.IndexFile, error) { return dlIndex, nil }
func dlAtomicWrite(filename string, reader io.Reader, mode os.FileMode) error { return nil }
func dlVerifyChart(path, keyring string) (*provenance.Verification, error) {
	if !dlProvValid {
		return nil, fmt.Errorf("openpgp: invalid signature")
	}
	return &provenance.Verification{FileName: filepath.Base(path)}, nil
}
func dlClientDo(c *http.Client, req *http.Request) (*http.Response, error) {
	dlRequests = append(dlRequests, dlReq{req.URL.String(), req.Header.Get("Authorization")})
	if strings.HasSuffix(req.URL.Path, ".prov") && !dlProvFound {
		return &http.Response{StatusCode: 404, Status: "404 Not Found", Body: io.NopCloser(strings.NewReader(""))}, nil
	}
	if strings.HasSuffix(req.URL.Path, ".prov") && dlProvEmpty {
		return &http.Response{StatusCode: 200, Status: "200 OK", Body: io.NopCloser(strings.NewReader(""))}, nil
	}
	return &http.Response{StatusCode: 200, Status: "200 OK", Body: io.NopCloser(strings.NewReader("data"))}, nil
}

const dlRepoURL = "http://repo.test/charts"
const dlRepoAuth = "Basic dTpw" // u:p

// where the index says the chart archive lives
var dlChartURLs = []string{
	"signtest-0.1.0.tgz",                        // relative: same origin
	"http://repo.test/charts/signtest-0.1.0.tgz", // absolute, same origin
	"http://other.test/signtest-0.1.0.tgz",       // another host
	"http://repo.test:8080/signtest-0.1.0.tgz",   // same host, another port
	"https://repo.test/charts/signtest-0.1.0.tgz", // same host, another scheme
}
var dlSameOrigin = []bool{true, true, false, false, false}

func H19Download() {
	which := ndChoice("chartURL", len(dlChartURLs))
	passAll := ndBool("passCredentialsAll")
	hasCreds := ndBool("credentials")
	refForm := ndChoice("ref", 3) // repo/name, the absolute URL from the index, an absolute URL no repository owns
	strategy := []VerificationStrategy{VerifyNever, VerifyIfPossible, VerifyAlways, VerifyLater}[ndChoice("verify", 4)]
	provFound, provValid := ndBool("provFound"), ndBool("provValid")
	provEmpty := provFound && ndBool("provEmpty") // the server answers 200 with an empty body
	if provEmpty {
		provValid = false
	}

	entry := &repo.Entry{Name: "r", URL: dlRepoURL, PassCredentialsAll: passAll}
	if hasCreds {
		entry.Username, entry.Password = "u", "p"
	}
	absChart := dlChartURLs[which]
	if which == 0 {
		absChart = dlRepoURL + "/" + dlChartURLs[0]
	}
	ref := "r/signtest"
	switch refForm {
	case 1:
		vAssume(which != 0) // a relative index URL cannot be given as an absolute reference
		ref = dlChartURLs[which]
	case 2:
		ref = "http://nobody.test/x/signtest-0.1.0.tgz"
	}
	idx := repo.NewIndexFile()
	idx.Entries["signtest"] = repo.ChartVersions{{Metadata: &chart.Metadata{Name: "signtest", Version: "0.1.0", APIVersion: "v1"}, URLs: []string{dlChartURLs[which]}}}

	var opts []getter.Option
	dir := "/dl"
	dlRequests = nil
	var srv *httptest.Server
	if ndNative() {
		d, err := os.MkdirTemp("", "verif-dl")
		if err != nil {
			panic(err)
		}
		defer os.RemoveAll(d)
		dir = d
		rf := repo.NewFile()
		rf.Add(entry)
		rf.WriteFile(filepath.Join(dir, "repositories.yaml"), 0o644)
		os.MkdirAll(filepath.Join(dir, "cache"), 0o755)
		idx.WriteFile(filepath.Join(dir, "cache", "r-index.yaml"), 0o644)
		chartBytes, _ := os.ReadFile("testdata/signtest-0.1.0.tgz")
		provBytes, _ := os.ReadFile("testdata/signtest-0.1.0.tgz.prov")
		if !provValid {
			provBytes = bytes.Replace(provBytes, []byte("name: signtest"), []byte("name: signtesT"), 1)
		}
		srv = httptest.NewServer(http.HandlerFunc(func(w http.ResponseWriter, r *http.Request) {
			scheme := "http"
			dlRequests = append(dlRequests, dlReq{scheme + "://" + r.Host + r.URL.Path, r.Header.Get("Authorization")})
			if strings.HasSuffix(r.URL.Path, ".prov") {
				if !provFound {
					http.NotFound(w, r)
					return
				}
				if !provEmpty {
					w.Write(provBytes)
				}
				return
			}
			w.Write(chartBytes)
		}))
		defer srv.Close()
		dial := func(ctx context.Context, network, addr string) (net.Conn, error) {
			return (&net.Dialer{}).DialContext(ctx, "tcp", srv.Listener.Addr().String())
		}
		opts = append(opts, getter.WithTransport(&http.Transport{DialContext: dial, DialTLSContext: dial, DisableKeepAlives: true}))
	} else {
		dlRepoFile = repo.NewFile()
		dlRepoFile.Add(entry)
		dlIndex = idx
		dlProvFound, dlProvValid, dlProvEmpty = provFound, provValid, provEmpty
	}
	c := &ChartDownloader{Out: io.Discard, Verify: strategy, Keyring: "testdata/helm-test-key.pub",
		Getters:          getter.Providers{{Schemes: []string{"http", "https"}, New: getter.NewHTTPGetter}},
		Options:          opts,
		RepositoryConfig: filepath.Join(dir, "repositories.yaml"), RepositoryCache: filepath.Join(dir, "cache")}
	dest := dir
	_, _, err := c.DownloadTo(ref, "", dest)

	// ---- C19: repository credentials only to the repository's own origin
	for _, r := range dlRequests {
		if r.auth == dlRepoAuth {
			toRepoOrigin := strings.HasPrefix(r.url, "http://repo.test/")
			vAssert("creds/only-to-repository-origin", passAll || toRepoOrigin)
			vAssert("creds/only-when-configured", hasCreds)
		}
	}
	if hasCreds && refForm == 0 && dlSameOrigin[which] && len(dlRequests) > 0 {
		vAssert("creds/sent-to-own-repository", dlRequests[0].auth == dlRepoAuth)
	}
	// ---- C17: the verification strategy
	provRequested := false
	for _, r := range dlRequests {
		if strings.HasSuffix(r.url, ".prov") {
			provRequested = true
		}
	}
	switch strategy {
	case VerifyNever:
		vAssert("verify/never-does-not-fetch-provenance", !provRequested && err == nil)
	case VerifyAlways:
		vAssert("verify/always-fails-without-valid-provenance", (err == nil) == (provFound && provValid))
	case VerifyIfPossible:
		vAssert("verify/if-possible-fails-on-invalid-provenance", (err == nil) == (!provFound || provValid))
	case VerifyLater:
		vAssert("verify/later-fetches-but-does-not-check", provRequested && err == nil)
	}
	vObservef("ref=%d url=%d err=%v requests=%d", refForm, which, err != nil, len(dlRequests))
	_ = absChart
}
