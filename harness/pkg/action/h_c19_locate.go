package action

// C19 (--repo lookups) — ChartPathOptions.LocateChart with --repo: the index is
// fetched from the repository with its credentials, the chart URL found in the
// index may point anywhere, and the credentials may go with the chart (and
// .prov) request only when its scheme, host and port are the repository's or
// pass-credentials is set. Runs the real LocateChart, repo.FindChartInRepoURL,
// ChartRepository.DownloadIndexFile (incl. the real index loader on the served
// YAML), ChartDownloader.DownloadTo / ResolveChartVersion and the real
// HTTPGetter. Cuts (class S): (*http.Client).Do (capture; natively a local
// server reached through HTTP_PROXY), repo.LoadIndexFile (the index just
// served), downloader file plumbing (loadRepoConfig via os.ReadFile → empty
// repository file; AtomicWriteFile, os.MkdirAll/WriteFile/RemoveAll no-ops),
// os.Stat (the chart name is not a local path).

import (
	"io"
	"io/fs"
	"net/http"
	"net/http/httptest"
	"os"
	"path/filepath"
	"strings"
	"sync"
	"syscall"

	chart "helm.sh/helm/v4/pkg/chart/v2"
	"helm.sh/helm/v4/pkg/cli"
	"helm.sh/helm/v4/pkg/repo"
)

//verif:stub (*net/http.Client).Do -> locClientDo
//verif:stub helm.sh/helm/v4/pkg/repo.LoadIndexFile -> locLoadIndexFile
//verif:stub helm.sh/helm/v4/internal/fileutil.AtomicWriteFile -> locAtomicWrite
//verif:stub os.Stat -> locStat
//verif:stub os.MkdirAll -> locMkdirAll
//verif:stub os.WriteFile -> locWriteFile
//verif:stub os.RemoveAll -> locRemoveAll
//verif:stub os.ReadFile -> locReadFile

type locReq struct{ url, auth string }

var (
	locRequests []locReq
	locIndexDoc string
	locChartURL string
	locMu       sync.Mutex
)

func locClientDo(c *http.Client, req *http.Request) (*http.Response, error) {
	locRequests = append(locRequests, locReq{req.URL.String(), req.Header.Get("Authorization")})
	body := "data"
	if strings.HasSuffix(req.URL.Path, "/index.yaml") {
		body = locIndexDoc
	}
	if strings.HasSuffix(req.URL.Path, ".prov") {
		return &http.Response{StatusCode: 404, Status: "404 Not Found", Body: io.NopCloser(strings.NewReader(""))}, nil
	}
	return &http.Response{StatusCode: 200, Status: "200 OK", Body: io.NopCloser(strings.NewReader(body))}, nil
}
func locLoadIndexFile(path string) (*repo.IndexFile, error) {
	i := repo.NewIndexFile()
	i.Entries["app"] = repo.ChartVersions{{Metadata: &chart.Metadata{Name: "app", Version: "0.1.0", APIVersion: "v2"}, URLs: []string{locChartURL}}}
	return i, nil
}
func locAtomicWrite(filename string, reader io.Reader, mode os.FileMode) error { return nil }
func locStat(name string) (fs.FileInfo, error) {
	return nil, &fs.PathError{Op: "stat", Path: name, Err: syscall.ENOENT}
}
func locMkdirAll(p string, perm os.FileMode) error                { return nil }
func locWriteFile(p string, data []byte, perm os.FileMode) error { return nil }
func locRemoveAll(p string) error                                { return nil }
func locReadFile(p string) ([]byte, error) {
	if strings.HasSuffix(p, "repositories.yaml") {
		return []byte("apiVersion: v1\nrepositories: []\n"), nil
	}
	return nil, &fs.PathError{Op: "open", Path: p, Err: syscall.ENOENT}
}

const locRepoURL = "http://repo.test/charts"
const locRepoAuth = "Basic dTpw" // u:p

var locChartURLs = []string{
	"app-0.1.0.tgz",                        // relative: same origin
	"http://repo.test/charts/app-0.1.0.tgz", // absolute, same origin
	"http://other.test/app-0.1.0.tgz",       // another host
	"http://repo.test:8080/app-0.1.0.tgz",   // same host, another port
	"http://repo.test.evil.test/charts/app-0.1.0.tgz", // a host that merely starts like the repository's
}

// native replay: one local server for the whole process, reached as an HTTP proxy
var (
	locSrvOnce sync.Once
	locSrv     *httptest.Server
)

func locStartProxy() {
	locSrvOnce.Do(func() {
		locSrv = httptest.NewServer(http.HandlerFunc(func(w http.ResponseWriter, r *http.Request) {
			locMu.Lock()
			locRequests = append(locRequests, locReq{"http://" + r.Host + r.URL.Path, r.Header.Get("Authorization")})
			doc := locIndexDoc
			locMu.Unlock()
			switch {
			case strings.HasSuffix(r.URL.Path, "/index.yaml"):
				io.WriteString(w, doc)
			case strings.HasSuffix(r.URL.Path, ".prov"):
				http.NotFound(w, r)
			default:
				io.WriteString(w, "data")
			}
		}))
		os.Setenv("HTTP_PROXY", locSrv.URL)
		os.Setenv("http_proxy", locSrv.URL)
		os.Setenv("NO_PROXY", "")
		os.Setenv("no_proxy", "")
	})
}

func H19Locate() {
	which := ndChoice("chartURL", len(locChartURLs))
	passAll := ndBool("passCredentialsAll")
	hasCreds := ndBool("credentials")
	withVersion := ndBool("version")
	locChartURL = locChartURLs[which]
	locIndexDoc = "apiVersion: v1\nentries:\n  app:\n  - name: app\n    version: 0.1.0\n    apiVersion: v2\n    urls:\n    - " + locChartURLs[which] + "\n"
	locRequests = nil
	dir := "/loc"
	if ndNative() {
		d, err := os.MkdirTemp("", "verif-loc")
		if err != nil {
			vrDiverged("no temp dir")
		}
		defer os.RemoveAll(d)
		dir = d
		os.Setenv("HELM_CACHE_HOME", filepath.Join(dir, "cachehome"))
		os.WriteFile(filepath.Join(dir, "repositories.yaml"), []byte("apiVersion: v1\nrepositories: []\n"), 0o644)
		locStartProxy()
	}
	settings := &cli.EnvSettings{RepositoryConfig: filepath.Join(dir, "repositories.yaml"), RepositoryCache: filepath.Join(dir, "cache"), PluginsDirectory: filepath.Join(dir, "plugins")}
	c := &ChartPathOptions{RepoURL: locRepoURL, PassCredentialsAll: passAll}
	if hasCreds {
		c.Username, c.Password = "u", "p"
	}
	if withVersion {
		c.Version = "0.1.0"
	}
	// C17: with --verify the download must fail when the provenance cannot be had (the server has none)
	c.Verify = ndBool("verify")
	c.Keyring = filepath.Join(dir, "no-such-keyring")
	_, err := c.LocateChart("app", settings)
	locMu.Lock()
	reqs := append([]locReq(nil), locRequests...)
	locMu.Unlock()
	sawChart := false
	for _, r := range reqs {
		if strings.HasSuffix(r.url, ".tgz") {
			sawChart = true
		}
		if r.auth == locRepoAuth {
			toRepoOrigin := strings.HasPrefix(r.url, "http://repo.test/")
			vAssert("locate/creds-only-to-repository-origin", passAll || toRepoOrigin)
			vAssert("locate/creds-only-when-configured", hasCreds)
		}
	}
	if c.Verify {
		vAssert("locate/verify-required-and-no-provenance-is-an-error", err != nil)
		vAssert("locate/index-and-chart-requested", len(reqs) >= 2 && sawChart && strings.HasSuffix(reqs[0].url, "/charts/index.yaml"))
	} else {
		vAssert("locate/index-and-chart-requested", err == nil && len(reqs) >= 2 && sawChart && strings.HasSuffix(reqs[0].url, "/charts/index.yaml"))
	}
	if hasCreds {
		vAssert("locate/index-request-carries-credentials", reqs[0].auth == locRepoAuth)
	}
	vObservef("url=%d passAll=%v creds=%v err=%v requests=%d", which, passAll, hasCreds, err != nil, len(reqs))
}
