package action

// C09 — concurrent installs/upgrades of one release cannot both proceed. Two
// operations, each with its own Configuration, share ONE store and ONE cluster.
// Every storage and cluster call is a possible preemption point; a harness-level
// scheduler (plain goroutines and channels, identical in the engine and in the
// native replay) lets the other operation run there when a symbolic `preempt`
// says so, with a bounded number of preemptions. At quiescence: each revision
// was created by exactly one operation, an operation that did not create its
// record failed without touching the cluster, and the ledger is well-formed.

import (
	"fmt"
	"strings"

	"helm.sh/helm/v4/pkg/kube"
	release "helm.sh/helm/v4/pkg/release/v1"
	"helm.sh/helm/v4/pkg/storage"
	"helm.sh/helm/v4/pkg/storage/driver"
)

type coop struct {
	budget int
	turn   []chan struct{} // one per operation: "you may run"
	report chan coopMsg    // operation -> scheduler
	cur    int
}

type coopMsg struct {
	who  int
	done bool
}

var theCoop *coop

// yieldPoint is called at the start of every store/cluster call of operation `who`.
func (c *coop) yieldPoint(who int, site string) {
	if c == nil || c.budget <= 0 {
		return
	}
	if ndBool(fmt.Sprintf("preempt@%s", site)) {
		c.budget--
		c.report <- coopMsg{who: who}
		<-c.turn[who]
	}
}

// yielding wrappers around the shared store and the shared cluster
type yieldDriver struct {
	*faultyDriver
	who int
}

func (d *yieldDriver) Create(key string, r *release.Release) error {
	theCoop.yieldPoint(d.who, "store.Create")
	err := d.faultyDriver.Driver.Create(key, cloneRelease(r))
	if err == nil {
		d.faultyDriver.created = append(d.faultyDriver.created, r.Version)
		createdBy[d.who] = append(createdBy[d.who], r.Version)
	}
	return err
}
func (d *yieldDriver) Update(key string, r *release.Release) error {
	theCoop.yieldPoint(d.who, "store.Update")
	return d.faultyDriver.Driver.Update(key, cloneRelease(r))
}
func (d *yieldDriver) Delete(key string) (*release.Release, error) {
	theCoop.yieldPoint(d.who, "store.Delete")
	r, err := d.faultyDriver.Driver.Delete(key)
	return cloneRelease(r), err
}
func (d *yieldDriver) Get(key string) (*release.Release, error) {
	theCoop.yieldPoint(d.who, "store.Get")
	return d.faultyDriver.Get(key)
}
func (d *yieldDriver) Query(l map[string]string) ([]*release.Release, error) {
	theCoop.yieldPoint(d.who, "store.Query")
	return d.faultyDriver.Query(l)
}
func (d *yieldDriver) List(f func(*release.Release) bool) ([]*release.Release, error) {
	theCoop.yieldPoint(d.who, "store.List")
	return d.faultyDriver.List(f)
}

var createdBy map[int][]int
var _ driver.Driver = (*yieldDriver)(nil)

func H09Concurrent() {
	w := newWorld(newFaultPlan(0, 0, "kube"))
	scenario := ndChoice("scenario", 3)
	switch scenario {
	case 1: // two upgrades of a deployed release
		prepareHistory(w, 1)
	case 2: // two install --replace on a kept, uninstalled history
		prepareHistory(w, 3)
	}
	pre := w.history()
	createdBy = map[int][]int{}
	c := &coop{budget: vBound("preemptions", 2), turn: []chan struct{}{make(chan struct{}), make(chan struct{})}, report: make(chan coopMsg)}
	theCoop = c
	// per-operation views of the shared cluster (own write log) and store
	kubes := []*symKube{
		{cluster: w.kube.cluster, faults: w.f, namespace: "default", who: "op0"},
		{cluster: w.kube.cluster, faults: w.f, namespace: "default", who: "op1"},
	}
	theKube = w.kube
	errs := make([]error, 2)
	run := func(who int) {
		<-c.turn[who]
		cfg := &Configuration{Releases: storage.Init(&yieldDriver{faultyDriver: w.store, who: who}), KubeClient: &yieldKube{symKube: kubes[who], who: who}, Capabilities: w.config().Capabilities}
		switch {
		case scenario == 0 || scenario == 2:
			i := NewInstall(cfg)
			i.ReleaseName, i.Namespace = relName, "default"
			i.Replace = scenario == 2
			_, errs[who] = i.Run(mkChart(who, false), map[string]interface{}{})
		default:
			u := NewUpgrade(cfg)
			u.Namespace = "default"
			u.MaxHistory = ndIntRange(fmt.Sprintf("maxhist%d", who), 0, vBound("maxhist", 2))
			_, errs[who] = u.Run(relName, mkChart(who, false), map[string]interface{}{})
		}
		c.report <- coopMsg{who: who, done: true}
	}
	go run(0)
	go run(1)
	done := []bool{false, false}
	cur := 0
	c.turn[cur] <- struct{}{}
	for !(done[0] && done[1]) {
		m := <-c.report
		if m.done {
			done[m.who] = true
		}
		// run the other operation if it is not finished, else resume this one
		next := 1 - m.who
		if done[next] {
			next = m.who
		}
		if done[next] {
			break
		}
		c.turn[next] <- struct{}{}
	}
	theCoop = nil
	h := w.history()
	vTag(fmt.Sprintf("scenario=%d created=%v/%v", scenario, createdBy[0], createdBy[1]))
	vObservef("scenario=%d errs=%v/%v created=%v/%v -> %s", scenario, errs[0] != nil, errs[1] != nil, createdBy[0], createdBy[1], histString(h))
	// each revision number has exactly one creator
	seen := map[int]int{}
	for who, vs := range createdBy {
		for _, v := range vs {
			if prev, dup := seen[v]; dup && prev != who {
				vFail("race/revision-created-twice")
			}
			seen[v] = who
		}
	}
	vAssert("race/revision-created-once", true)
	for who := 0; who < 2; who++ {
		if len(createdBy[who]) == 0 {
			vAssert("race/loser-reports-an-error", errs[who] != nil)
			vAssert("race/loser-touches-no-resource", len(kubes[who].writes) == 0)
		}
	}
	// an operation that reported success created a revision, and the highest revision
	// created by a successful operation is the deployed one once everything has returned
	best := 0
	for who := 0; who < 2; who++ {
		if errs[who] == nil {
			vAssert("race/success-means-own-revision-created", len(createdBy[who]) > 0)
			for _, v := range createdBy[who] {
				if v > best {
					best = v
				}
			}
		}
	}
	if best > 0 {
		vAssert("race/successful-revision-is-deployed", statusOf(h, best) == release.StatusDeployed)
	}
	checkLedger(w, pre, "concurrent")
	_ = strings.Join
}

type yieldKube struct {
	*symKube
	who int
}

func (k *yieldKube) Create(r kube.ResourceList) (*kube.Result, error) {
	theCoop.yieldPoint(k.who, "kube.Create")
	return k.symKube.Create(r)
}
func (k *yieldKube) Update(o, t kube.ResourceList, force bool) (*kube.Result, error) {
	theCoop.yieldPoint(k.who, "kube.Update")
	return k.symKube.Update(o, t, force)
}
func (k *yieldKube) Delete(r kube.ResourceList) (*kube.Result, []error) {
	theCoop.yieldPoint(k.who, "kube.Delete")
	return k.symKube.Delete(r)
}
