package action

import (
	release "helm.sh/helm/v4/pkg/release/v1"
)

func HSmoke() {
	w := newWorld(nil)
	inst := NewInstall(w.config())
	inst.ReleaseName = relName
	inst.Namespace = "default"
	rel, err := inst.Run(mkChart(0, true), map[string]interface{}{})
	vAssert("install/ok", err == nil && rel != nil)
	vAssert("install/deployed", rel.Info.Status == release.StatusDeployed)
	vObservef("after install: %s cluster=%d log=%d", histString(w.history()), len(w.kube.cluster), len(w.kube.log))
	up := NewUpgrade(w.config())
	up.Namespace = "default"
	rel2, err := up.Run(relName, mkChart(1, true), map[string]interface{}{})
	vAssert("upgrade/ok", err == nil && rel2 != nil)
	h := w.history()
	vObservef("after upgrade: %s cluster=%d", histString(h), len(w.kube.cluster))
	vAssert("upgrade/history", len(h) == 2 && h[0].Info.Status == release.StatusSuperseded && h[1].Info.Status == release.StatusDeployed)
}
