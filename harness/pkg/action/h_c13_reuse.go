package action

// C13 — the user values recorded for an upgraded revision follow the chosen
// flag: reset-values: the new values alone; reuse-values / reset-then-reuse-
// values: the deployed revision's values overlaid key by key with the new ones;
// otherwise the new values if any were given, else the deployed revision's.
// With reuse-values the defaults in force at the deployed revision stay in
// force. Runs the real Upgrade.reuseValues, CoalesceTables/coalesceTablesFullKey
// and CoalesceValues on symbolic trees; all eight flag combinations.

import (
	"reflect"

	chart "helm.sh/helm/v4/pkg/chart/v2"
	chartutil "helm.sh/helm/v4/pkg/chart/v2/util"
	release "helm.sh/helm/v4/pkg/release/v1"
)

func H13Reuse() {
	d := vBound("depth", 2)
	oldCfgN := ndNode("oldcfg.k", d, true)
	newN := ndNode("new.k", d, true)
	oldDefN := ndNode("olddef.k", vBound("defdepth", 0), true)
	newDefN := ndNode("newdef.k", 0, true)
	mk := func(n node, extraKey string) map[string]interface{} {
		m := map[string]interface{}{}
		if n.present {
			m["k"] = n.v
		}
		if extraKey != "" {
			m[extraKey] = int64(1)
		}
		return m
	}
	oldCfg := mk(oldCfgN, "")
	if ndBool("oldcfg.extra") {
		oldCfg["oldonly"] = int64(5)
	}
	newVals := mk(newN, "")
	if ndBool("new.extra") {
		newVals["newonly"] = int64(6)
	}
	oldChart := &chart.Chart{Metadata: &chart.Metadata{Name: "c", Version: "0.1.0", APIVersion: chart.APIVersionV2}, Values: mk(oldDefN, "olddefault")}
	newChart := &chart.Chart{Metadata: &chart.Metadata{Name: "c", Version: "0.2.0", APIVersion: chart.APIVersionV2}, Values: mk(newDefN, "newdefault")}
	current := &release.Release{Name: relName, Version: 1, Chart: oldChart, Config: oldCfg, Info: &release.Info{Status: release.StatusDeployed}}
	oldCfgBefore, newBefore := deepCopy(oldCfg), deepCopy(newVals).(map[string]interface{})
	oldDefBefore, newDefBefore := deepCopy(oldChart.Values), deepCopy(newChart.Values)
	newWasEmpty, oldWasEmpty := len(newVals) == 0, len(oldCfg) == 0

	u := NewUpgrade(&Configuration{})
	u.ResetValues, u.ReuseValues, u.ResetThenReuseValues = ndBool("reset"), ndBool("reuse"), ndBool("resetThenReuse")
	got, err := u.reuseValues(newChart, current, newVals)
	vAssert("reuse/noerr", err == nil)

	overlay := func() map[string]interface{} {
		out := map[string]interface{}{}
		keys := map[string]bool{}
		for k := range newBefore {
			keys[k] = true
		}
		for k := range oldCfg {
			keys[k] = true
		}
		for k := range keys {
			nv, np := newBefore[k]
			ov, op := oldCfgBefore.(map[string]interface{})[k]
			m := expectMerge(node{np, nv}, node{op, ov})
			if m.present {
				out[k] = m.v
			}
		}
		return out
	}
	switch {
	case u.ResetValues:
		vAssert("reset/new-values-alone", reflect.DeepEqual(got, newBefore))
		vAssert("reset/new-chart-defaults-in-force", reflect.DeepEqual(newChart.Values, newDefBefore))
	case u.ReuseValues:
		vAssert("reuse/old-overlaid-with-new", reflect.DeepEqual(got, overlay()))
		wantDefaults, _ := chartutil.CoalesceValues(&chart.Chart{Metadata: oldChart.Metadata, Values: deepCopy(oldDefBefore).(map[string]interface{})}, deepCopy(oldCfgBefore).(map[string]interface{}))
		vAssert("reuse/old-defaults-stay-in-force", reflect.DeepEqual(map[string]interface{}(newChart.Values), map[string]interface{}(wantDefaults)))
	case u.ResetThenReuseValues:
		vAssert("reset-then-reuse/old-overlaid-with-new", reflect.DeepEqual(got, overlay()))
		vAssert("reset-then-reuse/new-chart-defaults-in-force", reflect.DeepEqual(newChart.Values, newDefBefore))
	default:
		if newWasEmpty && !oldWasEmpty {
			vAssert("default/no-new-values-keeps-old", reflect.DeepEqual(got, oldCfgBefore))
		} else {
			vAssert("default/new-values-replace", reflect.DeepEqual(got, newBefore))
		}
		vAssert("default/new-chart-defaults-in-force", reflect.DeepEqual(newChart.Values, newDefBefore))
	}
	// the stored configuration and chart of the deployed revision are never modified
	vAssert("history/deployed-config-not-modified", reflect.DeepEqual(current.Config, oldCfgBefore))
	vAssert("history/deployed-chart-defaults-not-modified", reflect.DeepEqual(oldChart.Values, oldDefBefore))
	// ... not even later, when the new values are coalesced for rendering
	if _, cerr := chartutil.CoalesceValues(newChart, got); cerr == nil {
		vAssert("history/deployed-config-not-modified-by-render", reflect.DeepEqual(current.Config, oldCfgBefore))
	}
}

// H13Rollback: a rollback's new revision carries exactly the target revision's values, chart and manifest.
func H13Rollback() {
	w := newWorld(newFaultPlan(0, 0, "kube"))
	cfgN := ndNode("cfg.k", 1, true)
	vals := map[string]interface{}{}
	if cfgN.present {
		vals["k"] = cfgN.v
	}
	i := NewInstall(w.config())
	i.ReleaseName, i.Namespace = relName, "default"
	if _, err := i.Run(mkChart(0, false), vals); err != nil {
		vFail("setup/install")
	}
	up := NewUpgrade(w.config())
	up.Namespace = "default"
	up.ResetValues = true
	if _, err := up.Run(relName, mkChart(1, false), map[string]interface{}{"other": int64(3)}); err != nil {
		vFail("setup/upgrade")
	}
	rb := NewRollback(w.config())
	rb.Version = ndIntRange("target", 0, 2)
	err := rb.Run(relName)
	vAssert("rollback/ok", err == nil)
	h := w.history()
	vAssert("rollback/three-revisions", len(h) == 3)
	target := rb.Version
	if target == 0 {
		target = 1 // "previous revision"
	}
	src, dst := h[target-1], h[2]
	vAssert("rollback/carries-target-values", reflect.DeepEqual(dst.Config, src.Config))
	vAssert("rollback/carries-target-manifest", dst.Manifest == src.Manifest)
	vAssert("rollback/carries-target-chart", dst.Chart == src.Chart)
	vAssert("rollback/is-deployed", dst.Info.Status == release.StatusDeployed && dst.Version == 3)
}
