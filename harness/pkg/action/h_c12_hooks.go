package action

// C12 — hooks run one at a time in ascending weight (ties by name), honour the
// delete policies, and gate the operation. H12Exec drives the real execHook /
// hookByWeight / deleteHookByPolicy on 1..3 hooks with symbolic 64-bit weights,
// symbolic event membership and delete-policy sets and a symbolic single
// readiness failure; H12Gate drives install/upgrade end to end with a hook chart
// and a failure of the pre- or post-hook.

import (
	"fmt"
	"strings"
	"time"

	"helm.sh/helm/v4/pkg/kube"
	release "helm.sh/helm/v4/pkg/release/v1"
)

type hookSpec struct {
	h        *release.Hook
	id       string // kind/name as logged by the model cluster
	matches  bool
	before   bool
	onOK     bool
	onFailed bool
	crd      bool
}

var hookNames = [][]string{{"ha", "hb", "hc"}, {"hb", "ha", "hc"}, {"hc", "hb", "ha"}, {"ha", "hc", "hb"}}

func H12Exec() {
	w := newWorld(newFaultPlan(vBound("faults", 1), 0, "kube"))
	w.f.onlySite = "waiter.WatchUntilReady"
	n := ndIntRange("hooks", 1, vBound("hooks", 3))
	names := hookNames[ndChoice("names", len(hookNames))]
	rl := &release.Release{Name: relName, Namespace: "default", Info: &release.Info{Status: release.StatusPendingInstall}, Version: 1}
	specs := make([]*hookSpec, n)
	for k := 0; k < n; k++ {
		s := &hookSpec{}
		wgt := ndInt("weight")
		vAssume(wgt >= -2 && wgt <= 2)
		kind := "Job"
		s.matches = ndBool("matches")
		if k < 2 {
			if ndBool("crd") {
				kind, s.crd = "CustomResourceDefinition", true
			}
			s.before, s.onOK, s.onFailed = ndBool("before-hook-creation"), ndBool("hook-succeeded"), ndBool("hook-failed")
		} // a third hook (thorough tier) varies in weight, name and event only; its policy is the default
		// template paths sort the other way round than names: ties are by NAME
		h := &release.Hook{Name: names[k], Kind: kind, Path: "c/templates/" + string(rune('z'-names[k][1]+'a')) + ".yaml", Weight: wgt,
			Manifest: "apiVersion: batch/v1\nkind: " + kind + "\nmetadata:\n  name: " + names[k] + "\n"}
		if s.matches {
			h.Events = []release.HookEvent{release.HookPreInstall}
		} else {
			h.Events = []release.HookEvent{release.HookPostDelete}
		}
		if s.before {
			h.DeletePolicies = append(h.DeletePolicies, release.HookBeforeHookCreation)
		}
		if s.onOK {
			h.DeletePolicies = append(h.DeletePolicies, release.HookSucceeded)
		}
		if s.onFailed {
			h.DeletePolicies = append(h.DeletePolicies, release.HookFailed)
		}
		if len(h.DeletePolicies) == 0 {
			s.before = true // documented default
		}
		s.h, s.id = h, kind+"/"+names[k]
		specs[k] = s
		rl.Hooks = append(rl.Hooks, h)
	}
	if err := w.store.Driver.Create("sh.helm.release.v1.rel.v1", rl); err != nil {
		vFail("setup/create")
	}
	cfg := w.config()
	err := cfg.execHook(rl, release.HookPreInstall, kube.HookOnlyStrategy, time.Second)

	// expected order: matching hooks by (weight, name)
	var exp []*hookSpec
	for _, s := range specs {
		if s.matches {
			exp = append(exp, s)
		}
	}
	for a := 0; a < len(exp); a++ {
		for b := a + 1; b < len(exp); b++ {
			if exp[b].h.Weight < exp[a].h.Weight || (exp[b].h.Weight == exp[a].h.Weight && exp[b].h.Name < exp[a].h.Name) {
				exp[a], exp[b] = exp[b], exp[a]
			}
		}
	}
	failedAt := -1 // index in exp of the hook whose readiness wait failed
	if len(w.f.fired) > 0 {
		cnt := 0
		for _, l := range w.kube.log {
			if strings.HasPrefix(l, "WatchUntilReady ") {
				cnt++
			}
		}
		failedAt = cnt - 1
	}
	vAssert("exec/error-iff-a-hook-failed", (err != nil) == (failedAt >= 0))

	// the create sequence
	var creates []string
	for _, l := range w.kube.log {
		if strings.HasPrefix(l, "Create ") {
			creates = append(creates, strings.TrimPrefix(l, "Create "))
		}
	}
	wantCreates := len(exp)
	if failedAt >= 0 {
		wantCreates = failedAt + 1
	}
	vAssert("exec/number-of-hooks-created", len(creates) == wantCreates)
	for k := 0; k < len(creates) && k < len(exp); k++ {
		vAssert("exec/weight-then-name-order", creates[k] == exp[k].id)
	}
	// strictly sequential: create_i, wait_i, then create_{i+1}
	lastWaitDone := true
	for _, l := range w.kube.log {
		if strings.HasPrefix(l, "Create ") {
			vAssert("exec/one-at-a-time", lastWaitDone)
			lastWaitDone = false
		}
		if strings.HasPrefix(l, "WatchUntilReady ") {
			lastWaitDone = true
		}
	}
	// delete policies
	for k, s := range exp {
		created := k < len(creates)
		delBefore, delAfter := 0, 0
		seenCreate := false
		for _, l := range w.kube.log {
			if l == "Create "+s.id {
				seenCreate = true
			}
			if l == "Delete "+s.id {
				if seenCreate {
					delAfter++
				} else {
					delBefore++
				}
			}
		}
		if s.crd {
			vAssert("policy/crd-hooks-never-deleted", delBefore+delAfter == 0)
			continue
		}
		if created {
			vAssert("policy/before-hook-creation", (delBefore == 1) == s.before && delBefore <= 1)
		}
		switch {
		case !created:
			vAssert("policy/uncreated-hook-not-deleted-afterwards", delAfter == 0)
		case failedAt == k:
			vAssert("policy/hook-failed", (delAfter == 1) == s.onFailed && delAfter <= 1)
		default:
			vAssert("policy/hook-succeeded", (delAfter == 1) == s.onOK && delAfter <= 1)
		}
	}
	// hooks that do not match the event are never touched
	for _, s := range specs {
		if !s.matches {
			for _, l := range w.kube.log {
				vAssert("exec/other-events-untouched", !strings.HasSuffix(l, " "+s.id))
			}
		}
	}
	vObservef("hooks=%d matching=%d failedAt=%d err=%v log=%s", n, len(exp), failedAt, err != nil, strings.Join(w.kube.writes, ";"))
}

// H12Gate: a failing pre-hook stops the operation before any release resource
// is touched; a failing post-hook makes the operation fail; --no-hooks creates
// no hook at all — also not on the rollback / uninstall that --atomic runs after
// a failure, and not for rollback and uninstall themselves; hook objects never
// appear in the release manifest. One symbolic cluster failure anywhere (hook
// readiness, create, update, wait).
func H12Gate() {
	w := newWorld(newFaultPlan(0, 0, "kube"))
	op := ndChoice("op", 4) // install, upgrade, rollback, uninstall
	historyHooks = true
	switch op {
	case 1, 3:
		prepareHistory(w, 1)
	case 2:
		prepareHistory(w, 4)
	}
	historyHooks = false
	w.kube.log, w.kube.writes = nil, nil
	w.f.budget = 1
	noHooks := ndBool("nohooks")
	atomic := false
	var err error
	var rel *release.Release
	switch op {
	case 0:
		i := NewInstall(w.config())
		i.ReleaseName, i.Namespace, i.DisableHooks = relName, "default", noHooks
		atomic = ndBool("atomic")
		i.Atomic = atomic
		rel, err = i.Run(mkChart(1, true), map[string]interface{}{})
	case 1:
		u := NewUpgrade(w.config())
		u.Namespace, u.DisableHooks = "default", noHooks
		atomic = ndBool("atomic")
		u.Atomic = atomic
		u.CleanupOnFail = ndBool("cleanupOnFail")
		rel, err = u.Run(relName, mkChart(1, true), map[string]interface{}{})
	case 2:
		r := NewRollback(w.config())
		r.DisableHooks = noHooks
		r.CleanupOnFail = ndBool("cleanupOnFail")
		err = r.Run(relName)
	case 3:
		u := NewUninstall(w.config())
		u.DisableHooks = noHooks
		u.KeepHistory = ndBool("keepHistory")
		_, err = u.Run(relName)
	}
	hookWrites, manifestWrites, waits := 0, 0, 0
	firstManifestWrite, failedWait, failedOrdinal := -1, w.kube.failedWaitAt, 0
	hookWaitFailed := failedWait >= 0
	for k, l := range w.kube.log {
		isWrite := strings.HasPrefix(l, "Create ") || strings.HasPrefix(l, "Update ") || strings.HasPrefix(l, "Delete ")
		if isWrite && strings.Contains(l, "Job/hk") {
			hookWrites++
		}
		if isWrite && strings.Contains(l, "ConfigMap/") {
			manifestWrites++
			if firstManifestWrite < 0 {
				firstManifestWrite = k
			}
		}
		if strings.HasPrefix(l, "WatchUntilReady ") {
			waits++
			if k == failedWait {
				failedOrdinal = waits
			}
		}
	}
	vTag(fmt.Sprintf("op=%d nohooks=%v atomic=%v faults=%v", op, noHooks, atomic, w.f.fired))
	if noHooks {
		vAssert("gate/no-hooks-creates-no-hook", hookWrites == 0 && waits == 0)
		if len(w.f.fired) == 0 {
			vAssert("gate/no-hooks-succeeds", err == nil)
		}
	} else if hookWaitFailed {
		vAssert("gate/hook-failure-fails-operation", err != nil)
		if !atomic && op != 3 {
			if failedOrdinal == 1 {
				vAssert("gate/pre-hook-failure-touches-no-release-resource", manifestWrites == 0)
			}
			if firstManifestWrite >= 0 {
				vAssert("gate/post-hook-runs-after-resources", failedWait > firstManifestWrite)
			}
		}
	} else if len(w.f.fired) == 0 {
		vAssert("gate/success", err == nil && waits == 2)
		if op != 3 {
			vAssert("gate/success-touched-resources", firstManifestWrite >= 0)
		}
	}
	if rel != nil {
		vAssert("gate/hooks-not-in-manifest", !strings.Contains(rel.Manifest, "kind: Job"))
	}
	vObservef("op=%d nohooks=%v atomic=%v err=%v log=%s", op, noHooks, atomic, err != nil, fmt.Sprint(w.kube.writes))
}

