package action

// symbolic value trees (same helpers as in the chartutil harness)

type node struct {
	present bool
	v       interface{}
}

var treeKeys = []string{"a", "b"}

// ndNode draws a symbolic tree of at most the given depth.
func ndNode(name string, depth int, allowAbsent bool) node {
	n := 3
	if depth > 0 {
		n = 4
	}
	c := ndChoice(name+".shape", n)
	if !allowAbsent && c == 0 {
		c = 2
	}
	switch c {
	case 0:
		return node{}
	case 1:
		return node{true, nil}
	case 2:
		return node{true, ndInt64(name + ".scalar")}
	}
	t := map[string]interface{}{}
	for j, k := range treeKeys {
		cd := depth - 1
		if j > 0 && vBound("slim", 1) == 1 && cd > 0 {
			cd = 0 // slim trees: only the first key nests deeper (bound "slim"=0 for full trees)
		}
		ch := ndNode(name+"."+k, cd, true)
		if ch.present {
			t[k] = ch.v
		}
	}
	return node{true, t}
}

func deepCopy(v interface{}) interface{} {
	switch t := v.(type) {
	case map[string]interface{}:
		c := make(map[string]interface{}, len(t))
		for k, e := range t {
			c[k] = deepCopy(e)
		}
		return c
	case []interface{}:
		c := make([]interface{}, len(t))
		for k, e := range t {
			c[k] = deepCopy(e)
		}
		return c
	}
	return v
}

// expectMerge: the value a reader sees at one position when `hi` (higher
// precedence) and `lo` (a default) both may define it: tables merge key by key,
// scalars replace, an explicit null removes a default.
func expectMerge(hi, lo node) node {
	if !hi.present {
		if !lo.present {
			return node{}
		}
		return node{true, deepCopy(lo.v)}
	}
	if hi.v == nil {
		if lo.present {
			return node{} // explicit null removes the default
		}
		return node{true, nil}
	}
	ht, hIsTable := hi.v.(map[string]interface{})
	if !hIsTable {
		return node{true, hi.v}
	}
	lt, lIsTable := lo.v.(map[string]interface{})
	if !lo.present || !lIsTable {
		return node{true, deepCopy(ht)}
	}
	out := map[string]interface{}{}
	keys := map[string]bool{}
	for k := range ht {
		keys[k] = true
	}
	for k := range lt {
		keys[k] = true
	}
	for k := range keys {
		hv, hp := ht[k]
		lv, lp := lt[k]
		m := expectMerge(node{hp, hv}, node{lp, lv})
		if m.present {
			out[k] = m.v
		}
	}
	return node{true, out}
}

func asTable(n node) map[string]interface{} {
	if t, ok := n.v.(map[string]interface{}); ok && n.present {
		return t
	}
	return map[string]interface{}{}
}

