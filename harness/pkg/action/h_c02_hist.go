package action

// C02 (install / upgrade / rollback clause, at the action level) — after an
// operation that reports success on a cluster that accepted every request:
// every resource of the new revision's manifest exists with the manifest's
// content (also when the live object had been edited or removed out of band),
// every resource of the PREVIOUSLY DEPLOYED manifest that is not in the new one
// is gone, and an object no manifest of the release names is untouched. The
// history before the operation is symbolic: the deployed revision's chart, an
// optional later upgrade that failed at a symbolic cluster call (so that the
// newest revision is not the deployed one and the cluster may be half-way), and
// an optional out-of-band edit.

import (
	"bytes"
	"fmt"

	release "helm.sh/helm/v4/pkg/release/v1"
)

func manifestObjects(manifest string) map[objKey]string {
	rl, err := (&symKube{cluster: map[objKey]*symObj{}, namespace: "default", failedWaitAt: -1}).Build(bytes.NewBufferString(manifest), false)
	if err != nil {
		vFail("oracle/manifest-does-not-build")
	}
	m := map[objKey]string{}
	for _, r := range rl {
		m[keyOf(r)] = r.Object.(*symObj).Data
	}
	return m
}

func H02Hist() {
	w := newWorld(newFaultPlan(0, 0, "kube"))
	bystander := objKey{"ConfigMap", "default", "zz"}
	w.kube.cluster[bystander] = &symObj{Data: "bystander"}
	w.kube.cluster[bystander].Kind, w.kube.cluster[bystander].Name, w.kube.cluster[bystander].Namespace = "ConfigMap", "zz", "default"

	deployedChart := ndChoice("deployedChart", 3)
	inst := NewInstall(w.config())
	inst.ReleaseName, inst.Namespace = relName, "default"
	if _, err := inst.Run(mkChart(deployedChart, false), map[string]interface{}{}); err != nil {
		vFail("setup/install")
	}
	failedBetween := ndBool("failedUpgradeInBetween")
	if failedBetween {
		w.f.budget = 1 // one symbolic cluster failure somewhere in this upgrade
		up := NewUpgrade(w.config())
		up.Namespace = "default"
		up.CleanupOnFail = ndBool("failed.cleanupOnFail")
		_, err := up.Run(relName, mkChart(ndChoice("failedChart", 3), false), map[string]interface{}{})
		vAssume(err != nil && len(w.f.fired) == 1)
		w.f.budget = 0
	}
	pre := w.history()
	var prevDeployed *release.Release
	for _, r := range pre {
		if r.Info.Status == release.StatusDeployed {
			prevDeployed = r
		}
	}
	vAssume(prevDeployed != nil)
	// out of band: a resource of the deployed manifest was edited or removed by hand
	switch ndChoice("outOfBand", 3) {
	case 1:
		for k, o := range w.kube.cluster {
			if k != bystander && k.kind == "ConfigMap" {
				o.Data = "edited"
			}
		}
	case 2:
		for k := range w.kube.cluster {
			if k != bystander && k.kind == "ConfigMap" && k.name == "a" {
				delete(w.kube.cluster, k)
			}
		}
	}
	w.kube.log, w.kube.writes = nil, nil
	var err error
	kind := ""
	switch ndChoice("op", 2) {
	case 0:
		kind = "upgrade"
		up := NewUpgrade(w.config())
		up.Namespace = "default"
		up.Force = ndBool("force")
		_, err = up.Run(relName, mkChart(ndChoice("chart", 3), false), map[string]interface{}{})
	case 1:
		kind = "rollback"
		rb := NewRollback(w.config())
		rb.Version = prevDeployed.Version
		rb.Force = ndBool("force")
		err = rb.Run(relName)
	}
	h := w.history()
	vTag(fmt.Sprintf("op=%s pre=[%s] fired=%v", kind, histString(pre), w.f.fired))
	vAssert("hist/operation-succeeds-on-an-accepting-cluster", err == nil)
	now := h[len(h)-1]
	vAssert("hist/new-revision-deployed", now.Info.Status == release.StatusDeployed)
	want := manifestObjects(now.Manifest)
	for k, data := range want {
		o, ok := w.kube.cluster[k]
		vAssert("hist/every-manifest-resource-exists", ok)
		vAssert("hist/with-the-content-the-manifest-specifies", o.Data == data)
	}
	for k := range manifestObjects(prevDeployed.Manifest) {
		if _, still := want[k]; !still {
			_, exists := w.kube.cluster[k]
			vAssert("hist/resources-dropped-from-the-deployed-manifest-are-deleted", !exists)
		}
	}
	by, ok := w.kube.cluster[bystander]
	vAssert("hist/bystander-untouched", ok && by.Data == "bystander")
	vObservef("%s pre=%s -> %s objects=%d", kind, histString(pre), histString(h), len(w.kube.cluster))
}

// H02Install: a first install over objects left in the cluster by an earlier
// life of the same release (kept by the keep policy, or adopted with
// --take-ownership): after success every resource of the manifest exists with
// the manifest's content — those that were already there and those that were not
// — and a bystander is untouched.
func H02Install() {
	w := newWorld(newFaultPlan(0, 0, "kube"))
	bystander := objKey{"ConfigMap", "default", "zz"}
	w.kube.cluster[bystander] = &symObj{Data: "bystander"}
	w.kube.cluster[bystander].Kind, w.kube.cluster[bystander].Name, w.kube.cluster[bystander].Namespace = "ConfigMap", "zz", "default"
	take := ndBool("takeOwnership")
	// leftovers: each of a, b may be there, owned by this release (3) or — with take-ownership — by nobody (1)
	for _, n := range []string{"a", "b"} {
		switch ndChoice("leftover."+n, 3) {
		case 1:
			plantObject(w, n, 3)
		case 2:
			if take {
				plantObject(w, n, 1)
			}
		}
	}
	inst := NewInstall(w.config())
	inst.ReleaseName, inst.Namespace, inst.TakeOwnership = relName, "default", take
	inst.Force = ndBool("force")
	rel, err := inst.Run(mkChart(ndChoice("chart", 3), false), map[string]interface{}{})
	vAssert("install/succeeds-over-own-leftovers", err == nil && rel != nil)
	for k, data := range manifestObjects(rel.Manifest) {
		o, ok := w.kube.cluster[k]
		vAssert("install/every-manifest-resource-exists", ok)
		vAssert("install/with-the-content-the-manifest-specifies", o.Data == data)
	}
	by, ok := w.kube.cluster[bystander]
	vAssert("install/bystander-untouched", ok && by.Data == "bystander")
	vObservef("objects=%d", len(w.kube.cluster))
}
