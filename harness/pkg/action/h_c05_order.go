package action

// C05 (order-independence clause) — the same chart, values and options always
// yield byte-identical manifests, the same hooks in the same order and the same
// notes text, independent of map iteration order. Runs the real renderResources
// (notes extraction, SortManifests, manifest assembly) twice, with every Go
// `range` over a map inside it taking, symbolically and independently, insertion
// order or its reverse (ndMapOrder), and compares the two results. Template execution itself is cut
// (engine.Render; literal templates) — determinism of text/template, sprig, DNS
// and the environment are outside this claim. Natively map order is random, so
// the replay repeats the second run many times.

import (
	"fmt"
	"strings"

	chart "helm.sh/helm/v4/pkg/chart/v2"
	chartutil "helm.sh/helm/v4/pkg/chart/v2/util"
)

func H05Order() {
	w := newWorld(newFaultPlan(0, 0, "kube"))
	cfg := w.config()
	parent := &chart.Chart{Metadata: &chart.Metadata{Name: "p", Version: "0.1.0", APIVersion: chart.APIVersionV2}}
	withParentNotes, withSub1Notes, withSub2Notes := ndBool("parentNotes"), ndBool("sub1Notes"), ndBool("sub2Notes")
	if withParentNotes {
		parent.Templates = append(parent.Templates, &chart.File{Name: "templates/NOTES.txt", Data: []byte("parent notes")})
	}
	parent.Templates = append(parent.Templates, &chart.File{Name: "templates/z.yaml", Data: []byte(cmDoc("z", "1", ""))})
	if ndBool("caseVariantFiles") {
		// two files whose paths differ only in letter case, same kind
		parent.Templates = append(parent.Templates, &chart.File{Name: "templates/Z.yaml", Data: []byte(cmDoc("zz", "2", ""))})
		parent.Templates = append(parent.Templates, &chart.File{Name: "templates/hk.yaml", Data: []byte(hookDoc("hb", "pre-install", 0, ""))})
		parent.Templates = append(parent.Templates, &chart.File{Name: "templates/Hk.yaml", Data: []byte(hookDoc("ha", "pre-install", 0, ""))})
	}
	s1 := &chart.Chart{Metadata: &chart.Metadata{Name: "s1", Version: "0.1.0", APIVersion: chart.APIVersionV2}}
	s2 := &chart.Chart{Metadata: &chart.Metadata{Name: "s2", Version: "0.1.0", APIVersion: chart.APIVersionV2}}
	if withSub1Notes {
		s1.Templates = append(s1.Templates, &chart.File{Name: "templates/NOTES.txt", Data: []byte("s1 notes")})
	}
	if withSub2Notes {
		s2.Templates = append(s2.Templates, &chart.File{Name: "templates/NOTES.txt", Data: []byte("s2 notes")})
	}
	if true {
		s1.Templates = append(s1.Templates, &chart.File{Name: "templates/h.yaml", Data: []byte(hookDoc("h1", "pre-install", 0, ""))})
	}
	if true {
		s2.Templates = append(s2.Templates, &chart.File{Name: "templates/a.yaml", Data: []byte(cmDoc("a", "1", ""))})
	}
	parent.SetDependencies(s1, s2)
	subNotes := ndBool("SubNotes")
	vals := chartutil.Values{"Values": map[string]interface{}{}}
	run := func() string {
		ndMapOrder(true)
		hooks, manifest, notes, err := cfg.renderResources(parent, vals, relName, "", subNotes, false, false, nil, false, false, false)
		ndMapOrder(false)
		if err != nil {
			return "error: " + err.Error()
		}
		var hs []string
		for _, h := range hooks {
			hs = append(hs, h.Kind+"/"+h.Name+"@"+h.Path)
		}
		return "MANIFEST<" + manifest.String() + "> HOOKS<" + strings.Join(hs, ",") + "> NOTES<" + notes + ">"
	}
	first := run()
	repeats := 1
	if ndNative() {
		repeats = 64
	}
	vTag(fmt.Sprintf("subnotes=%v notes=%v/%v/%v", subNotes, withParentNotes, withSub1Notes, withSub2Notes))
	for r := 0; r < repeats; r++ {
		again := run()
		vAssert("determinism/same-output-whatever-the-map-order", again == first)
	}
	vObservef("subnotes=%v len=%d", subNotes, len(first))
}
