package action

// C02 (uninstall clause) — after a successful uninstall every resource of the
// recorded manifest has been deleted from the cluster, unless it carries the
// keep policy, in which case it is reported as kept. Runs the real
// Uninstall.Run / deleteRelease / filterManifestsToKeep / SplitManifests /
// SortManifests (uninstall order) against the model cluster.

import (
	"strings"

	chart "helm.sh/helm/v4/pkg/chart/v2"
)

var policyMenu = []string{"<none>", "keep", " Keep ", "KEEP", "delete", "", "keep-it"}

func H02Uninstall() {
	w := newWorld(newFaultPlan(0, 0, "kube"))
	c := &chart.Chart{Metadata: &chart.Metadata{Name: "c", Version: "0.1.0", APIVersion: chart.APIVersionV2}}
	n := ndIntRange("docs", 1, vBound("docs", 2))
	type doc struct {
		name, policy string
	}
	var docs []doc
	for i := 0; i < n; i++ {
		d := doc{name: string(rune('a' + i)), policy: policyMenu[ndChoice("policy", len(policyMenu))]}
		ann := ""
		if d.policy != "<none>" {
			ann = "    \"helm.sh/resource-policy\": \"" + d.policy + "\"\n"
			if ndBool("otherAnnotation") {
				ann += "    other: x\n"
			}
		} else if ndBool("otherAnnotation") {
			ann = "    other: x\n"
		}
		c.Templates = append(c.Templates, &chart.File{Name: "templates/" + d.name + ".yaml", Data: []byte(cmDoc(d.name, "v", ann))})
		docs = append(docs, d)
	}
	i := NewInstall(w.config())
	i.ReleaseName, i.Namespace = relName, "default"
	if _, err := i.Run(c, map[string]interface{}{}); err != nil {
		vFail("setup/install")
	}
	un := NewUninstall(w.config())
	un.KeepHistory = ndBool("keephistory")
	res, err := un.Run(relName)
	vAssert("uninstall/ok", err == nil && res != nil)
	for _, d := range docs {
		_, exists := w.kube.cluster[objKey{"ConfigMap", "default", d.name}]
		keep := strings.ToLower(strings.TrimSpace(d.policy)) == "keep" && d.policy != "<none>"
		listed := strings.Contains(res.Info, "[ConfigMap] "+d.name+"\n")
		vTag("policy=" + d.policy)
		vAssert("uninstall/kept-resources-are-reported-iff-keep-policy", listed == keep)
		vAssert("uninstall/every-other-resource-is-deleted", exists == keep)
	}
}
