package action

// C01 / C03 — bounded histories of install / upgrade / rollback / uninstall from
// the empty ledger, every flag a symbolic boolean, with at most `faults` injected
// failures (cluster calls, waiter, hook readiness, storage writes) and at most
// `crashes` process deaths placed symbolically at any call into the cluster or
// the store. After every operation (and after every crash) the ledger invariant
// and the per-operation post-conditions of the property are asserted.

import (
	"bytes"
	"fmt"

	"helm.sh/helm/v4/pkg/kube"
	release "helm.sh/helm/v4/pkg/release/v1"
)

type opResult struct {
	kind    string
	err     error
	crashed bool
	flags   string
}

func ledgerTag(op string, pre []*release.Release, fired []string, flags string) string {
	return fmt.Sprintf("op=%s faults=%v | pre=[%s] %s", op, fired, histString(pre), flags)
}

// checkLedger asserts the invariant part of C01 on the stored history.
func checkLedger(w *world, pre []*release.Release, where string) {
	h := w.history()
	deployed := 0
	for i, r := range h {
		if i > 0 {
			vAssert("ledger/strictly-increasing-unique", h[i-1].Version < r.Version)
		}
		if r.Info.Status == release.StatusDeployed {
			deployed++
		}
	}
	vAssert("ledger/at-most-one-deployed", deployed <= 1)
}

func statusOf(h []*release.Release, v int) release.Status {
	for _, r := range h {
		if r.Version == v {
			return r.Info.Status
		}
	}
	return ""
}

func deployedVersion(h []*release.Release) int {
	for _, r := range h {
		if r.Info.Status == release.StatusDeployed {
			return r.Version
		}
	}
	return 0
}

// one symbolic operation on the world; returns a short description
func stepOp(w *world, step int) {
	pre := w.history()
	preDeployed := deployedVersion(pre)
	maxPre := 0
	if len(pre) > 0 {
		maxPre = pre[len(pre)-1].Version
	}
	firedBefore := len(w.f.fired)
	logBefore := len(w.kube.log)
	createdBefore := len(w.store.created)
	chartV := ndChoice("chart", 2)
	withHook := ndBool("hook")
	// bound "slimflags"=1 (deep histories): from the second operation on, the boolean options
	// stay off and only the operation, the chart and the numeric options vary
	flag := func(name string) bool {
		if vBound("slimflags", 0) == 1 && step > 0 {
			return false
		}
		return ndBool(name)
	}
	var err error
	var crashed bool
	var flags, kind string
	nOps := 4
	if len(pre) == 0 {
		nOps = 1 // only install makes sense on an empty ledger (the others fail before touching anything)
	}
	switch ndChoice("op", nOps) {
	case 0:
		kind = "install"
		inst := NewInstall(w.config())
		inst.ReleaseName, inst.Namespace = relName, "default"
		inst.Replace, inst.Atomic, inst.DisableHooks = flag("replace"), flag("atomic"), flag("nohooks")
		inst.WaitStrategy = waitStrategy(inst.Atomic, step == vBound("depth", 2)-1)
		err, crashed = w.runOp(func() error { _, e := inst.Run(mkChart(chartV, withHook), map[string]interface{}{}); return e })
		flags = fmt.Sprintf("replace=%v atomic=%v nohooks=%v", inst.Replace, inst.Atomic, inst.DisableHooks)
	case 1:
		kind = "upgrade"
		up := NewUpgrade(w.config())
		up.Namespace = "default"
		up.Atomic, up.CleanupOnFail, up.DisableHooks = flag("atomic"), flag("cleanup"), flag("nohooks")
		up.WaitStrategy = waitStrategy(up.Atomic, step == vBound("depth", 2)-1)
		up.MaxHistory = ndIntRange("maxhist", 0, vBound("maxhist", 2))
		err, crashed = w.runOp(func() error { _, e := up.Run(relName, mkChart(chartV, withHook), map[string]interface{}{}); return e })
		flags = fmt.Sprintf("atomic=%v cleanup=%v nohooks=%v maxhist=%d", up.Atomic, up.CleanupOnFail, up.DisableHooks, up.MaxHistory)
	case 2:
		kind = "rollback"
		rb := NewRollback(w.config())
		rb.Version = ndIntRange("version", 0, maxPre+1)
		rb.CleanupOnFail, rb.DisableHooks = flag("cleanup"), flag("nohooks")
		rb.MaxHistory = ndIntRange("maxhist", 0, vBound("maxhist", 2))
		err, crashed = w.runOp(func() error { return rb.Run(relName) })
		flags = fmt.Sprintf("version=%d cleanup=%v nohooks=%v maxhist=%d", rb.Version, rb.CleanupOnFail, rb.DisableHooks, rb.MaxHistory)
	case 3:
		kind = "uninstall"
		un := NewUninstall(w.config())
		un.KeepHistory, un.DisableHooks = ndBool("keephistory"), flag("nohooks")
		err, crashed = w.runOp(func() error { _, e := un.Run(relName); return e })
		flags = fmt.Sprintf("keep=%v nohooks=%v", un.KeepHistory, un.DisableHooks)
	}
	fired := w.f.fired[firedBefore:]
	vTag(ledgerTag(kind, pre, fired, flags))
	h := w.history()
	vObservef("step %d %s %s err=%v crashed=%v -> %s", step, kind, flags, err != nil, crashed, histString(h))
	checkLedger(w, pre, kind)
	// every new revision is exactly one above the highest one existing when it was created
	for k, v := range w.store.created[createdBefore:] {
		vAssert("ledger/new-revision-is-max+1", v == maxPre+1+k)
	}
	if crashed {
		return
	}
	if err == nil {
		// reported success
		switch kind {
		case "install", "upgrade", "rollback":
			if kind != "rollback" && containsStr(flags, "atomic=true") {
				// --atomic implies --wait: an atomic operation cannot succeed without having checked readiness
				vAssert("atomic/success-only-after-a-readiness-check", logHas(w.kube.log[logBefore:], "Wait "))
			}
			vAssert("success/new-revision-is-highest-and-deployed", len(h) > 0 && h[len(h)-1].Version == maxPre+1 && h[len(h)-1].Info.Status == release.StatusDeployed)
			if preDeployed != 0 && statusOf(h, preDeployed) != "" {
				vAssert("success/previous-deployed-is-superseded", statusOf(h, preDeployed) == release.StatusSuperseded)
			}
		case "uninstall":
			if !ndNativeBool(flags, "keep=true") {
				vAssert("success/uninstall-purges-history", len(h) == 0)
			} else {
				vAssert("success/uninstall-keeps-uninstalled-record", len(h) > 0 && h[len(h)-1].Info.Status == release.StatusUninstalled)
			}
		}
	} else if len(fired) > 0 && onlyClusterFaults(fired) {
		// C03: a cluster-side failure is contained
		checkContained(w, kind, pre, h, maxPre, preDeployed, flags)
	}
}

// waitStrategy: what the command line passes — hook-only when --wait is not given (the
// action promotes it itself under --atomic), the status watcher when it is.
func waitStrategy(atomic bool, lastStep bool) kube.WaitStrategy {
	// (an explicit --wait on a non-atomic operation is explored for the last operation of a history only)
	if !atomic && lastStep && ndBool("wait") {
		return kube.StatusWatcherStrategy
	}
	return kube.HookOnlyStrategy
}

func logHas(log []string, prefix string) bool {
	for _, l := range log {
		if len(l) >= len(prefix) && l[:len(prefix)] == prefix {
			return true
		}
	}
	return false
}

func ndNativeBool(flags, needle string) bool {
	return len(flags) >= len(needle) && containsStr(flags, needle)
}

func containsStr(s, sub string) bool {
	for i := 0; i+len(sub) <= len(s); i++ {
		if s[i:i+len(sub)] == sub {
			return true
		}
	}
	return false
}

func onlyClusterFaults(fired []string) bool {
	for _, f := range fired {
		if len(f) >= 5 && f[:5] == "store" {
			return false
		}
		if len(f) >= 5 && f[:5] == "crash" {
			return false
		}
	}
	return true
}

// checkContained: C03 for an operation that failed because the cluster rejected
// a call, a resource never became ready, or a hook failed.
func checkContained(w *world, kind string, pre, h []*release.Release, maxPre, preDeployed int, flags string) {
	atomic := containsStr(flags, "atomic=true")
	// the manifest of the most recent revision that had been deployed before the operation
	lastGood := ""
	for _, r := range pre {
		if r.Info.Status == release.StatusDeployed || r.Info.Status == release.StatusSuperseded {
			lastGood = r.Manifest
		}
	}
	created := statusOf(h, maxPre+1)
	switch kind {
	case "install":
		if atomic {
			vAssert("contained/atomic-install-leaves-no-history-of-it", created == "")
		} else if created != "" {
			vAssert("contained/created-revision-is-failed", created == release.StatusFailed)
		}
	case "upgrade":
		if atomic {
			// rolled back: highest revision deployed
			if created != "" && preDeployed != 0 { // the upgrade got as far as creating its revision
				vAssert("contained/atomic-upgrade-created-revision-is-failed", created == release.StatusFailed)
				vAssert("contained/atomic-upgrade-restores-deployed", h[len(h)-1].Info.Status == release.StatusDeployed)
				vAssert("contained/atomic-upgrade-restores-last-good-manifest", h[len(h)-1].Manifest == lastGood)
				vAssert("contained/atomic-upgrade-restores-cluster", clusterMatchesManifest(w, lastGood))
			}
		} else {
			if created != "" {
				vAssert("contained/created-revision-is-failed", created == release.StatusFailed)
			}
			if preDeployed != 0 && statusOf(h, preDeployed) != "" {
				vAssert("contained/previous-deployed-keeps-status", statusOf(h, preDeployed) == release.StatusDeployed)
			}
			if containsStr(flags, "cleanup=true") && lastGood != "" {
				// resources this upgrade newly created (not in the last good manifest) are deleted again
				for k := range w.kube.cluster {
					if k.kind == "ConfigMap" {
						vAssert("contained/cleanup-on-fail-removes-new-resources", containsStr(lastGood, "name: "+k.name+"\n"))
					}
				}
			}
		}
	case "rollback":
		if created != "" {
			vAssert("contained/created-revision-is-failed", created == release.StatusFailed)
		}
	}
}

// clusterMatchesManifest: the ConfigMaps in the model cluster are exactly those
// of the manifest, with the manifest's content.
func clusterMatchesManifest(w *world, manifest string) bool {
	rl, err := (&symKube{cluster: map[objKey]*symObj{}, namespace: "default"}).Build(bytes.NewBufferString(manifest), false)
	if err != nil {
		return false
	}
	want := map[objKey]string{}
	for _, r := range rl {
		want[keyOf(r)] = r.Object.(*symObj).Data
	}
	n := 0
	for k, o := range w.kube.cluster {
		if k.kind != "ConfigMap" {
			continue
		}
		n++
		if d, ok := want[k]; !ok || d != o.Data {
			return false
		}
	}
	return n == len(want)
}

// H01Crash: one upgrade / rollback / uninstall / install --replace from a
// deployed (or deployed+failed) history with one process death at a symbolic
// call into the cluster or the store: whatever is stored afterwards satisfies
// the ledger invariant, and a recovery operation keeps it.
func H01Crash() {
	w := newWorld(newFaultPlan(0, 0, "both"))
	prepareHistory(w, 1+ndChoice("history", 2))
	pre := w.history()
	maxPre := pre[len(pre)-1].Version
	w.f.crashes = 1
	createdBefore := len(w.store.created)
	var crashed bool
	kind := ""
	switch ndChoice("op", 4) {
	case 0:
		kind = "upgrade"
		up := NewUpgrade(w.config())
		up.Namespace, up.Atomic, up.MaxHistory = "default", ndBool("atomic"), ndIntRange("maxhist", 0, 1)
		_, crashed = w.runOp(func() error { _, e := up.Run(relName, mkChart(1, ndBool("hook")), map[string]interface{}{}); return e })
	case 1:
		kind = "rollback"
		rb := NewRollback(w.config())
		_, crashed = w.runOp(func() error { return rb.Run(relName) })
	case 2:
		kind = "uninstall"
		un := NewUninstall(w.config())
		un.KeepHistory = ndBool("keephistory")
		_, crashed = w.runOp(func() error { _, e := un.Run(relName); return e })
	case 3:
		kind = "install"
		inst := NewInstall(w.config())
		inst.ReleaseName, inst.Namespace, inst.Replace = relName, "default", true
		_, crashed = w.runOp(func() error { _, e := inst.Run(mkChart(1, false), map[string]interface{}{}); return e })
	}
	vTag(ledgerTag(kind, pre, w.f.fired, "crash-harness"))
	vObservef("%s crashed=%v at %v -> %s", kind, crashed, w.f.fired, histString(w.history()))
	checkLedger(w, pre, kind)
	for k, v := range w.store.created[createdBefore:] {
		vAssert("ledger/new-revision-is-max+1", v == maxPre+1+k)
	}
	if !crashed {
		return
	}
	// recovery: a plain upgrade by a new process must leave a well-formed ledger
	w.f.crashes = 0
	pre2 := w.history()
	up := NewUpgrade(w.config())
	up.Namespace = "default"
	_, _ = w.runOp(func() error { _, e := up.Run(relName, mkChart(0, false), map[string]interface{}{}); return e })
	vTag(ledgerTag("recovery-upgrade", pre2, nil, "after crash in "+kind))
	checkLedger(w, pre2, "recovery-upgrade")
}

// H03AtomicAfterFailed: history 1:deployed 2:failed, then an atomic upgrade in
// which one cluster call fails: the rollback must restore revision 1's manifest.
func H03AtomicAfterFailed() {
	w := newWorld(newFaultPlan(0, 0, "kube"))
	prepareHistory(w, 2)
	pre := w.history()
	w.f.budget, w.f.kinds = 1, "kube"
	up := NewUpgrade(w.config())
	up.Namespace, up.Atomic = "default", true
	up.CleanupOnFail, up.DisableHooks = ndBool("cleanup"), ndBool("nohooks")
	_, err := up.Run(relName, mkChart(2, ndBool("hook")), map[string]interface{}{})
	h := w.history()
	vTag("op=upgrade faults=" + fmt.Sprint(w.f.fired) + " | atomic after failed")
	checkLedger(w, pre, "upgrade")
	if len(w.f.fired) > 0 && err != nil {
		checkContained(w, "upgrade", pre, h, pre[len(pre)-1].Version, 1, "atomic=true")
	}
	vObservef("err=%v fired=%v -> %s", err != nil, w.f.fired, histString(h))
}

func hist(depth int, kinds string) {
	w := newWorld(newFaultPlan(vBound("faults", 1), vBound("crashes", 0), kinds))
	for s := 0; s < depth; s++ {
		stepOp(w, s)
	}
}

// H01Kept: one symbolic operation (with at most one fault) on a history whose
// newest revision was uninstalled with --keep-history, with and without older
// revisions underneath, or with the older revisions pruned away (a gap in the numbering): uninstall must purge every revision, install / install
// --replace / upgrade / rollback keep the ledger well-formed.
func H01Kept() {
	w := newWorld(newFaultPlan(vBound("faults", 1), 0, "both"))
	w.f.budget = 0
	prepareHistory(w, []int{3, 5, 6}[ndChoice("history", 3)])
	w.f.budget = vBound("faults", 1)
	stepOp(w, vBound("depth", 2)-1)
}

// H01Hist: histories with storage and cluster faults and crashes (C01).
func H01Hist() { hist(vBound("depth", 2), "both") }

// H03Hist: histories with cluster-side faults only (C03 containment).
func H03Hist() { hist(vBound("depth", 2), "kube") }
