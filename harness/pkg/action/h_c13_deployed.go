package action

// C13 (which revision the values are carried forward FROM) — end to end through
// the real Upgrade.Run / prepareUpgrade: "the currently deployed revision's user
// values", also when the newest revision is a failed upgrade that was given
// different values and a chart with different defaults. History: install with
// values A (deployed); optionally an upgrade with values B and chart defaults B
// that fails at the cluster (recorded failed); then the upgrade under test with
// symbolic flags and new values C (possibly none).

import (
	"reflect"

	chart "helm.sh/helm/v4/pkg/chart/v2"
	release "helm.sh/helm/v4/pkg/release/v1"
)

func chartWithDefaults(v int, version string, defaults map[string]interface{}) *chart.Chart {
	c := mkChart(v, false)
	c.Metadata.Version = version
	c.Values = defaults
	return c
}

func H13Deployed() {
	w := newWorld(newFaultPlan(0, 0, "kube"))
	valsA := map[string]interface{}{"k": "a", "onlyA": int64(1)}
	valsB := map[string]interface{}{"k": "b", "onlyB": int64(2)}
	defA := map[string]interface{}{"def": "A"}
	defB := map[string]interface{}{"def": "B"}
	defC := map[string]interface{}{"def": "C"}

	inst := NewInstall(w.config())
	inst.ReleaseName, inst.Namespace = relName, "default"
	if _, err := inst.Run(chartWithDefaults(0, "0.1.0", deepCopy(defA).(map[string]interface{})), deepCopy(valsA).(map[string]interface{})); err != nil {
		vFail("setup/install")
	}
	failedBetween := ndBool("failedUpgradeInBetween")
	if failedBetween {
		w.f.budget, w.f.kinds, w.f.forceSite = 1, "kube", "kube.Update"
		up := NewUpgrade(w.config())
		up.Namespace = "default"
		up.ResetValues = true
		if _, err := up.Run(relName, chartWithDefaults(1, "0.2.0", deepCopy(defB).(map[string]interface{})), deepCopy(valsB).(map[string]interface{})); err == nil {
			vFail("setup/upgrade-should-fail")
		}
		w.f.budget, w.f.forceSite = 0, ""
	}
	before := w.history()
	vAssume(before[0].Info.Status == release.StatusDeployed)

	valsC := map[string]interface{}{}
	if ndBool("newValuesGiven") {
		valsC["k"] = "c"
		if ndBool("newOnlyKey") {
			valsC["onlyC"] = int64(3)
		}
	}
	given := deepCopy(valsC).(map[string]interface{})
	u := NewUpgrade(w.config())
	u.Namespace = "default"
	u.ResetValues, u.ReuseValues, u.ResetThenReuseValues = ndBool("reset"), ndBool("reuse"), ndBool("resetThenReuse")
	rel, err := u.Run(relName, chartWithDefaults(1, "0.3.0", deepCopy(defC).(map[string]interface{})), valsC)
	vAssert("deployed/upgrade-succeeds", err == nil && rel != nil)

	overlay := deepCopy(valsA).(map[string]interface{})
	for k, v := range given {
		overlay[k] = v
	}
	h := w.history()
	rec := h[len(h)-1]
	vAssert("deployed/new-revision-recorded", rec.Version == before[len(before)-1].Version+1 && rec.Info.Status == release.StatusDeployed)
	switch {
	case u.ResetValues:
		vAssert("deployed/reset-records-new-values-alone", reflect.DeepEqual(rec.Config, given))
		vAssert("deployed/reset-new-chart-defaults", reflect.DeepEqual(rec.Chart.Values, defC))
	case u.ReuseValues:
		vAssert("deployed/reuse-overlays-the-deployed-revisions-values", reflect.DeepEqual(rec.Config, overlay))
		// helm keeps them in force by installing the deployed revision's coalesced values
		// (its chart defaults under its user values) as the new chart's defaults
		inForce := deepCopy(defA).(map[string]interface{})
		for k, v := range valsA {
			inForce[k] = v
		}
		vAssert("deployed/reuse-keeps-the-deployed-revisions-defaults", reflect.DeepEqual(rec.Chart.Values, inForce))
	case u.ResetThenReuseValues:
		vAssert("deployed/reset-then-reuse-overlays-the-deployed-revisions-values", reflect.DeepEqual(rec.Config, overlay))
		vAssert("deployed/reset-then-reuse-new-chart-defaults", reflect.DeepEqual(rec.Chart.Values, defC))
	case len(given) > 0:
		vAssert("deployed/new-values-given-are-recorded", reflect.DeepEqual(rec.Config, given))
		vAssert("deployed/default-mode-new-chart-defaults", reflect.DeepEqual(rec.Chart.Values, defC))
	default:
		vAssert("deployed/no-new-values-keeps-the-deployed-revisions-values", reflect.DeepEqual(rec.Config, valsA))
		vAssert("deployed/default-mode-new-chart-defaults", reflect.DeepEqual(rec.Chart.Values, defC))
	}
	vObservef("failedBetween=%v reset=%v reuse=%v rtr=%v given=%d hist=%s", failedBetween, u.ResetValues, u.ReuseValues, u.ResetThenReuseValues, len(given), histString(h))
}
