package action

// C14 — values that violate a chart's schema are never rendered or deployed,
// for the root chart and for every ENABLED subchart, and the gate never rejects
// when every schema is satisfied; only --skip-schema-validation bypasses it.
// Runs the real ToRenderValuesWithSchemaValidation / ValidateAgainstSchema
// recursion / ProcessDependencies / CoalesceValues inside the real Install and
// Upgrade. The schema evaluator itself (santhosh-tekuri/jsonschema) is cut
// (class S): every harness schema is {"required":["ok"],"properties":{"ok":
// {"const":true}}} tagged with its chart's name, and the stub evaluates exactly
// that schema; natively the real evaluator runs on the same documents.

import (
	"fmt"
	"strings"

	"k8s.io/apimachinery/pkg/api/meta"
	"k8s.io/client-go/discovery"
	"k8s.io/client-go/rest"
	metav1 "k8s.io/apimachinery/pkg/apis/meta/v1"

	chart "helm.sh/helm/v4/pkg/chart/v2"
	chartutil "helm.sh/helm/v4/pkg/chart/v2/util"
)

//verif:stub helm.sh/helm/v4/pkg/chart/v2/util.ValidateAgainstSingleSchema -> stubValidateSingle

var schemaCalls []string

func schemaFor(name string) []byte {
	return []byte(`{"$comment":"` + name + `","type":"object","required":["ok"],"properties":{"ok":{"const":true}}}`)
}

// schemaWithGlobal: additionally constrains a value the chart receives through `global`
func schemaWithGlobal(name string) []byte {
	return []byte(`{"$comment":"` + name + `|g","type":"object","required":["ok"],"properties":{"ok":{"const":true},"global":{"type":"object","properties":{"gok":{"const":true}}}}}`)
}

func stubValidateSingle(values chartutil.Values, schemaJSON []byte) error {
	s := string(schemaJSON)
	a := strings.Index(s, `"$comment":"`) + len(`"$comment":"`)
	name := s[a : a+strings.IndexByte(s[a:], '"')]
	withGlobal := strings.HasSuffix(name, "|g")
	name = strings.TrimSuffix(name, "|g")
	schemaCalls = append(schemaCalls, name)
	if ok, _ := values["ok"].(bool); ok {
		if withGlobal {
			g, _ := values["global"].(map[string]interface{})
			if gok, present := g["gok"]; present && gok != true {
				return fmt.Errorf("- at '/global/gok': value must be true\n")
			}
		}
		return nil
	}
	return fmt.Errorf("- at '/ok': value must be true\n") // the real validator's text for ok: false
}

type fakeDiscovery struct {
	discovery.CachedDiscoveryInterface
}

func (fakeDiscovery) Invalidate() {}
func (fakeDiscovery) ServerGroups() (*metav1.APIGroupList, error) {
	return &metav1.APIGroupList{}, nil
}

type fakeGetter struct{}

func (fakeGetter) ToRESTConfig() (*rest.Config, error) { return &rest.Config{Host: "http://127.0.0.1:1"}, nil }
func (fakeGetter) ToDiscoveryClient() (discovery.CachedDiscoveryInterface, error) {
	return fakeDiscovery{}, nil
}
func (fakeGetter) ToRESTMapper() (meta.RESTMapper, error) { return nil, nil }

func H14Gate() { h14(0) }

// H14Deep: parent -> mid -> leaf; the middle chart may have no schema while the
// leaf has one. H14Alias: the subchart is imported under an alias and switched
// on by a condition under that alias.
func H14Deep()  { h14(1) }
func H14Alias() { h14(2) }

func newSub(name string) *chart.Chart {
	c := &chart.Chart{Metadata: &chart.Metadata{Name: name, Version: "0.1.0", APIVersion: chart.APIVersionV2}}
	c.Templates = []*chart.File{{Name: "templates/" + name + ".yaml", Data: []byte(cmDoc(name+"cm", "x", ""))}}
	return c
}

func h14(tree int) {
	schemaCalls = nil
	w := newWorld(newFaultPlan(0, 0, "kube"))
	upgrade := ndBool("upgrade")
	if upgrade {
		prepareHistory(w, 1)
	}
	before := histString(w.history())
	w.kube.log, w.kube.writes, w.store.writes = nil, nil, nil

	parent := mkChart(1, false)
	// charts: name -> (has schema, values valid, enabled)
	names := []string{"c", "s1", "s2"}
	hasSchema := map[string]bool{"c": ndBool("schema.parent"), "s1": ndBool("schema.s1"), "s2": ndBool("schema.s2")}
	valid := map[string]bool{"c": ndBool("valid.parent"), "s1": ndBool("valid.s1"), "s2": ndBool("valid.s2")}
	enabled := map[string]bool{"c": true, "s1": true, "s2": true}
	s1, s2 := newSub("s1"), newSub("s2")
	if ndBool("s2.libraryChart") {
		s2.Metadata.Type = "library" // a library chart's schema applies to its values like any other
	}
	var vals map[string]interface{}
	switch tree {
	case 0: // flat: s1 always on, s2 switched by s2.enabled
		enabled["s2"] = ndBool("s2.enabled")
		parent.Metadata.Dependencies = []*chart.Dependency{{Name: "s1", Version: "0.1.0"}, {Name: "s2", Version: "0.1.0", Condition: "s2.enabled"}}
		parent.SetDependencies(s1, s2)
		vals = map[string]interface{}{"ok": valid["c"], "s1": map[string]interface{}{"ok": valid["s1"]},
			"s2": map[string]interface{}{"ok": valid["s2"], "enabled": enabled["s2"]}}
	case 1: // deep: c -> s1 -> s2
		parent.Metadata.Dependencies = []*chart.Dependency{{Name: "s1", Version: "0.1.0"}}
		s1.Metadata.Dependencies = []*chart.Dependency{{Name: "s2", Version: "0.1.0"}}
		s1.SetDependencies(s2)
		parent.SetDependencies(s1)
		vals = map[string]interface{}{"ok": valid["c"], "s1": map[string]interface{}{"ok": valid["s1"], "s2": map[string]interface{}{"ok": valid["s2"]}}}
	case 2: // alias: s1 imported as "db", switched by db.enabled; s2 plain
		enabled["s1"] = ndBool("db.enabled")
		parent.Metadata.Dependencies = []*chart.Dependency{{Name: "s1", Version: "0.1.0", Alias: "db", Condition: "db.enabled"}, {Name: "s2", Version: "0.1.0"}}
		parent.SetDependencies(s1, s2)
		vals = map[string]interface{}{"ok": valid["c"], "db": map[string]interface{}{"ok": valid["s1"], "enabled": enabled["s1"]},
			"s2": map[string]interface{}{"ok": valid["s2"]}}
	}
	if hasSchema["c"] {
		parent.Schema = schemaFor("c")
	}
	// s1's schema may also constrain a global the chart receives from above
	globalBad := false
	if hasSchema["s1"] {
		s1.Schema = schemaFor("s1")
		if ndBool("s1.schemaConstrainsGlobal") {
			s1.Schema = schemaWithGlobal("s1")
			globalBad = ndBool("globalViolates")
			vAssume(!globalBad || valid["s1"]) // one reason per chart keeps the error text comparable
			vals["global"] = map[string]interface{}{"gok": !globalBad}
		}
	}
	if hasSchema["s2"] {
		s2.Schema = schemaFor("s2")
	}
	withCRD := tree == 0 && ndBool("crd")
	if withCRD {
		parent.Files = append(parent.Files, &chart.File{Name: "crds/crd.yaml",
			Data: []byte("apiVersion: apiextensions.k8s.io/v1\nkind: CustomResourceDefinition\nmetadata:\n  name: crd1\n")})
	}
	skip := ndBool("skipSchemaValidation")
	cfg := w.config()
	cfg.RESTClientGetter = fakeGetter{}
	var err error
	mode := 0
	if upgrade {
		u := NewUpgrade(cfg)
		u.Namespace, u.SkipSchemaValidation = "default", skip
		// no other option may switch the gate off: the value-carrying modes, dry-run
		mode = ndChoice("upgradeMode", 5)
		switch mode {
		case 1:
			u.ResetValues = true
		case 2:
			u.ReuseValues = true
		case 3:
			u.ResetThenReuseValues = true
		case 4:
			u.DryRun = true
		}
		_, err = u.Run(relName, parent, vals)
	} else {
		i := NewInstall(cfg)
		i.ReleaseName, i.Namespace, i.SkipSchemaValidation = relName, "default", skip
		mode = ndChoice("installMode", 3)
		switch mode {
		case 1: // helm template
			i.DryRun, i.ClientOnly = true, true
		case 2:
			i.DryRun = true
		}
		_, err = i.Run(parent, vals)
	}
	var violators []string
	wantCalls := 0
	for _, c := range names {
		if enabled[c] && hasSchema[c] {
			wantCalls++
			if !valid[c] || (c == "s1" && globalBad) {
				violators = append(violators, c)
			}
		}
	}
	vTag(fmt.Sprintf("tree=%d upgrade=%v crd=%v violators=%v skip=%v", tree, upgrade, withCRD && mode == 0, violators, skip))
	rejected := !skip && len(violators) > 0
	vObservef("err=%v", err)
	vAssert("gate/error-iff-an-enabled-chart-violates-its-schema", (err != nil) == rejected)
	if rejected {
		for _, c := range violators {
			shown := c
			if tree == 2 && c == "s1" {
				shown = "db"
			}
			vAssert("gate/error-names-the-chart", strings.Contains(err.Error(), shown+":\n"))
		}
		vAssert("gate/nothing-stored", len(w.store.writes) == 0 && histString(w.history()) == before)
		vAssert("gate/nothing-sent-to-cluster", len(w.kube.writes) == 0)
	}
	if !ndNative() {
		if skip {
			vAssert("gate/skip-means-no-evaluation", len(schemaCalls) == 0)
		} else {
			// every enabled chart with a schema is evaluated (an operation may check before it touches
			// the cluster and again when it computes the render values: a multiple of the count)
			vAssert("gate/evaluated-for-every-enabled-chart-with-schema", len(schemaCalls) >= wantCalls && (wantCalls == 0 || len(schemaCalls)%wantCalls == 0) && (wantCalls > 0 || len(schemaCalls) == 0))
			for _, c := range schemaCalls {
				vAssert("gate/disabled-chart-schema-never-applied", enabled[c])
			}
		}
	}
	vObservef("tree=%d upgrade=%v crd=%v skip=%v violators=%v err=%v writes=%d", tree, upgrade, withCRD, skip, violators, err != nil, len(w.kube.writes))
}
