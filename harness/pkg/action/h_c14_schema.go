package action

// C14 — values that violate a chart's schema are never rendered or deployed,
// for the root chart and for every ENABLED subchart, and the gate never rejects
// when every schema is satisfied; only --skip-schema-validation bypasses it.
// Runs the real ToRenderValuesWithSchemaValidation / ValidateAgainstSchema
// recursion / ProcessDependencies / CoalesceValues inside the real Install and
// Upgrade. The schema evaluator itself (santhosh-tekuri/jsonschema) is cut
// (class S): every harness schema is {"required":["ok"],"properties":{"ok":
// {"const":true}}} tagged with its chart's name, and the stub evaluates exactly
// that schema; natively the real evaluator runs on the same documents.

import (
	"fmt"
	"strings"

	"k8s.io/apimachinery/pkg/api/meta"
	"k8s.io/client-go/discovery"
	"k8s.io/client-go/rest"
	metav1 "k8s.io/apimachinery/pkg/apis/meta/v1"

	chart "helm.sh/helm/v4/pkg/chart/v2"
	chartutil "helm.sh/helm/v4/pkg/chart/v2/util"
)

//verif:stub helm.sh/helm/v4/pkg/chart/v2/util.ValidateAgainstSingleSchema -> stubValidateSingle

var schemaCalls []string

func schemaFor(name string) []byte {
	return []byte(`{"$comment":"` + name + `","type":"object","required":["ok"],"properties":{"ok":{"const":true}}}`)
}

func stubValidateSingle(values chartutil.Values, schemaJSON []byte) error {
	s := string(schemaJSON)
	a := strings.Index(s, `"$comment":"`) + len(`"$comment":"`)
	name := s[a : a+strings.IndexByte(s[a:], '"')]
	schemaCalls = append(schemaCalls, name)
	if ok, _ := values["ok"].(bool); ok {
		return nil
	}
	return fmt.Errorf("- at '': missing or wrong property 'ok'\n")
}

type fakeDiscovery struct {
	discovery.CachedDiscoveryInterface
}

func (fakeDiscovery) Invalidate() {}
func (fakeDiscovery) ServerGroups() (*metav1.APIGroupList, error) {
	return &metav1.APIGroupList{}, nil
}

type fakeGetter struct{}

func (fakeGetter) ToRESTConfig() (*rest.Config, error) { return &rest.Config{Host: "http://127.0.0.1:1"}, nil }
func (fakeGetter) ToDiscoveryClient() (discovery.CachedDiscoveryInterface, error) {
	return fakeDiscovery{}, nil
}
func (fakeGetter) ToRESTMapper() (meta.RESTMapper, error) { return nil, nil }

func H14Gate() {
	schemaCalls = nil
	w := newWorld(newFaultPlan(0, 0, "kube"))
	upgrade := ndBool("upgrade")
	if upgrade {
		prepareHistory(w, 1)
	}
	before := histString(w.history())
	w.kube.log, w.kube.writes, w.store.writes = nil, nil, nil

	// parent + subcharts s1 (always enabled) and s2 (enabled by condition s2.enabled)
	parent := mkChart(1, false)
	s1 := &chart.Chart{Metadata: &chart.Metadata{Name: "s1", Version: "0.1.0", APIVersion: chart.APIVersionV2}}
	s2 := &chart.Chart{Metadata: &chart.Metadata{Name: "s2", Version: "0.1.0", APIVersion: chart.APIVersionV2}}
	s1.Templates = []*chart.File{{Name: "templates/s1.yaml", Data: []byte(cmDoc("s1cm", "x", ""))}}
	s2.Templates = []*chart.File{{Name: "templates/s2.yaml", Data: []byte(cmDoc("s2cm", "x", ""))}}
	parent.Metadata.Dependencies = []*chart.Dependency{
		{Name: "s1", Version: "0.1.0"},
		{Name: "s2", Version: "0.1.0", Condition: "s2.enabled"},
	}
	parent.SetDependencies(s1, s2)
	hasSchema := map[string]bool{"c": ndBool("schema.parent"), "s1": ndBool("schema.s1"), "s2": ndBool("schema.s2")}
	valid := map[string]bool{"c": ndBool("valid.parent"), "s1": ndBool("valid.s1"), "s2": ndBool("valid.s2")}
	s2enabled := ndBool("s2.enabled")
	if hasSchema["c"] {
		parent.Schema = schemaFor("c")
	}
	if hasSchema["s1"] {
		s1.Schema = schemaFor("s1")
	}
	if hasSchema["s2"] {
		s2.Schema = schemaFor("s2")
	}
	withCRD := ndBool("crd")
	if withCRD {
		parent.Files = append(parent.Files, &chart.File{Name: "crds/crd.yaml",
			Data: []byte("apiVersion: apiextensions.k8s.io/v1\nkind: CustomResourceDefinition\nmetadata:\n  name: crd1\n")})
	}
	vals := map[string]interface{}{
		"ok": valid["c"],
		"s1": map[string]interface{}{"ok": valid["s1"]},
		"s2": map[string]interface{}{"ok": valid["s2"], "enabled": s2enabled},
	}
	skip := ndBool("skipSchemaValidation")
	cfg := w.config()
	cfg.RESTClientGetter = fakeGetter{}
	var err error
	if upgrade {
		u := NewUpgrade(cfg)
		u.Namespace, u.SkipSchemaValidation = "default", skip
		_, err = u.Run(relName, parent, vals)
	} else {
		i := NewInstall(cfg)
		i.ReleaseName, i.Namespace, i.SkipSchemaValidation = relName, "default", skip
		_, err = i.Run(parent, vals)
	}
	enabled := map[string]bool{"c": true, "s1": true, "s2": s2enabled}
	var violators []string
	wantCalls := 0
	for _, c := range []string{"c", "s1", "s2"} {
		if enabled[c] && hasSchema[c] {
			wantCalls++
			if !valid[c] {
				violators = append(violators, c)
			}
		}
	}
	vTag(fmt.Sprintf("upgrade=%v crd=%v violators=%v skip=%v", upgrade, withCRD, violators, skip))
	rejected := !skip && len(violators) > 0
	vObservef("err=%v", err)
	vAssert("gate/error-iff-an-enabled-chart-violates-its-schema", (err != nil) == rejected)
	if rejected {
		for _, c := range violators {
			vAssert("gate/error-names-the-chart", strings.Contains(err.Error(), c+":\n"))
		}
		vAssert("gate/nothing-stored", len(w.store.writes) == 0 && histString(w.history()) == before)
		vAssert("gate/nothing-sent-to-cluster", len(w.kube.writes) == 0)
	}
	if !ndNative() {
		if skip {
			vAssert("gate/skip-means-no-evaluation", len(schemaCalls) == 0)
		} else {
			vAssert("gate/evaluated-once-per-enabled-chart-with-schema", len(schemaCalls) == wantCalls)
			for _, c := range schemaCalls {
				vAssert("gate/disabled-chart-schema-never-applied", enabled[c])
			}
		}
	}
	vObservef("upgrade=%v crd=%v skip=%v violators=%v err=%v writes=%d", upgrade, withCRD, skip, violators, err != nil, len(w.kube.writes))
}
