package action

// C06 — an install, upgrade, rollback or uninstall in any dry-run mode issues
// no creating/updating/deleting request to the cluster and writes nothing to
// release storage, whatever the chart contains (hook, CRD, namespace creation,
// post-renderer) and whatever other flags are set; client-only rendering
// additionally sends no request at all. Every option field is a symbolic
// input; the documented dry-run predicate is assumed; the model cluster and the
// store wrapper record every call with a read/write classification.

import (
	"bytes"

	chart "helm.sh/helm/v4/pkg/chart/v2"
)

type passThroughPostRenderer struct{ calls int }

func (p *passThroughPostRenderer) Run(in *bytes.Buffer) (*bytes.Buffer, error) {
	p.calls++
	return in, nil
}

var dryRunOptions = []string{"", "client", "server", "true", "none", "false"}

func chartWithCRD(v int, withHook, withCRD bool) *chart.Chart {
	c := mkChart(v, withHook)
	if withCRD {
		c.Files = append(c.Files, &chart.File{Name: "crds/crd.yaml",
			Data: []byte("apiVersion: apiextensions.k8s.io/v1\nkind: CustomResourceDefinition\nmetadata:\n  name: crd1\n")})
	}
	return c
}

// historyHooks: the charts of the revisions prepareHistory stores carry a hook
// for every lifecycle event (rollback and uninstall run the STORED hooks)
var historyHooks bool

// prepareHistory brings the world to one of: empty, 1:deployed, 1:deployed 2:failed,
// 1:uninstalled (kept), 1:superseded 2:deployed, 1:superseded 2:uninstalled (kept)
func prepareHistory(w *world, shape int) {
	if shape == 0 {
		return
	}
	inst := NewInstall(w.config())
	inst.ReleaseName, inst.Namespace = relName, "default"
	if _, err := inst.Run(mkChart(0, historyHooks), map[string]interface{}{}); err != nil {
		vFail("setup/install")
	}
	if shape == 4 {
		up := NewUpgrade(w.config())
		up.Namespace = "default"
		if _, err := up.Run(relName, mkChart(1, historyHooks), map[string]interface{}{}); err != nil {
			vFail("setup/upgrade")
		}
	}
	if shape == 2 {
		w.f.budget, w.f.kinds = 1, "kube"
		w.f.forceSite = "kube.Update"
		up := NewUpgrade(w.config())
		up.Namespace = "default"
		if _, err := up.Run(relName, mkChart(1, historyHooks), map[string]interface{}{}); err == nil {
			vFail("setup/upgrade-should-fail")
		}
		w.f.budget, w.f.forceSite = 0, ""
	}
	if shape == 6 { // older revisions pruned by the history limit: 4:superseded 5:uninstalled (kept) — numbering with a gap
		for k := 0; k < 4; k++ {
			up := NewUpgrade(w.config())
			up.Namespace, up.MaxHistory = "default", 2
			if _, err := up.Run(relName, mkChart(k%2, historyHooks), map[string]interface{}{}); err != nil {
				vFail("setup/upgrade")
			}
		}
	}
	if shape == 5 { // 1:superseded 2:uninstalled (kept)
		up := NewUpgrade(w.config())
		up.Namespace = "default"
		if _, err := up.Run(relName, mkChart(1, historyHooks), map[string]interface{}{}); err != nil {
			vFail("setup/upgrade")
		}
	}
	if shape == 3 || shape == 5 || shape == 6 {
		un := NewUninstall(w.config())
		un.KeepHistory = true
		if _, err := un.Run(relName); err != nil {
			vFail("setup/uninstall")
		}
	}
}

func H06DryRun() {
	w := newWorld(newFaultPlan(0, 0, "both"))
	shape := ndChoice("history", 5)
	historyHooks = ndBool("historyHooks")
	prepareHistory(w, shape)
	historyHooks = false
	before := histString(w.history())
	clusterBefore := len(w.kube.cluster)
	w.kube.log, w.kube.writes, w.store.writes = nil, nil, nil
	cfg := w.config()
	origKube, origStore := w.kube, w.store
	chartV := ndChoice("chart", 2)
	withHook, withCRD := ndBool("hook"), ndBool("crd")
	clientOnly := false
	var err error
	kind := ""
	switch ndChoice("op", 4) {
	case 0:
		kind = "install"
		i := NewInstall(cfg)
		i.ReleaseName, i.Namespace = relName, "default"
		i.DryRun = ndBool("DryRun")
		i.DryRunOption = dryRunOptions[ndChoice("DryRunOption", len(dryRunOptions))]
		vAssume(i.DryRun || i.DryRunOption == "client" || i.DryRunOption == "server" || i.DryRunOption == "true")
		i.ClientOnly = ndBool("ClientOnly")
		clientOnly = i.ClientOnly
		i.CreateNamespace, i.Replace, i.Atomic = ndBool("CreateNamespace"), ndBool("Replace"), ndBool("Atomic")
		i.DisableHooks, i.SkipCRDs, i.IncludeCRDs = ndBool("DisableHooks"), ndBool("SkipCRDs"), ndBool("IncludeCRDs")
		i.TakeOwnership, i.HideSecret, i.WaitForJobs, i.Force = ndBool("TakeOwnership"), ndBool("HideSecret"), ndBool("WaitForJobs"), ndBool("Force")
		i.IsUpgrade, i.SubNotes = ndBool("IsUpgrade"), ndBool("SubNotes")
		if ndBool("PostRenderer") {
			i.PostRenderer = &passThroughPostRenderer{}
		}
		_, err = i.Run(chartWithCRD(chartV, withHook, withCRD), map[string]interface{}{})
	case 1:
		kind = "upgrade"
		u := NewUpgrade(cfg)
		u.Namespace = "default"
		u.DryRun = ndBool("DryRun")
		u.DryRunOption = dryRunOptions[ndChoice("DryRunOption", len(dryRunOptions))]
		vAssume(u.DryRun || u.DryRunOption == "client" || u.DryRunOption == "server" || u.DryRunOption == "true")
		u.Atomic, u.CleanupOnFail, u.DisableHooks = ndBool("Atomic"), ndBool("CleanupOnFail"), ndBool("DisableHooks")
		u.TakeOwnership, u.HideSecret, u.WaitForJobs, u.Force = ndBool("TakeOwnership"), ndBool("HideSecret"), ndBool("WaitForJobs"), ndBool("Force")
		u.ResetValues, u.ReuseValues, u.SubNotes = ndBool("ResetValues"), ndBool("ReuseValues"), ndBool("SubNotes")
		u.MaxHistory = ndIntRange("MaxHistory", 0, 1)
		if ndBool("PostRenderer") {
			u.PostRenderer = &passThroughPostRenderer{}
		}
		_, err = u.Run(relName, chartWithCRD(chartV, withHook, withCRD), map[string]interface{}{})
	case 2:
		kind = "rollback"
		r := NewRollback(cfg)
		r.DryRun = true
		r.Version = ndIntRange("Version", 0, 2)
		r.CleanupOnFail, r.DisableHooks, r.Force, r.WaitForJobs = ndBool("CleanupOnFail"), ndBool("DisableHooks"), ndBool("Force"), ndBool("WaitForJobs")
		r.MaxHistory = ndIntRange("MaxHistory", 0, 1)
		err = r.Run(relName)
	case 3:
		kind = "uninstall"
		u := NewUninstall(cfg)
		u.DryRun = true
		u.KeepHistory, u.DisableHooks, u.IgnoreNotFound = ndBool("KeepHistory"), ndBool("DisableHooks"), ndBool("IgnoreNotFound")
		_, err = u.Run(relName)
	}
	vTag("op=" + kind + " history=" + before)
	vAssert("dryrun/no-cluster-write", len(origKube.writes) == 0)
	vAssert("dryrun/no-storage-write", len(origStore.writes) == 0)
	vAssert("dryrun/history-unchanged", histString(w.history()) == before)
	vAssert("dryrun/cluster-unchanged", len(origKube.cluster) == clusterBefore)
	if clientOnly {
		vAssert("clientonly/no-cluster-request-at-all", len(origKube.log) == 0)
	}
	vObservef("%s history=%q err=%v kubecalls=%d", kind, before, err != nil, len(origKube.log))
}
