package action

// Environment models (class E) for the action-layer harnesses: a model cluster
// behind helm's real kube.Interface, a fault/crash-injecting wrapper around the
// real memory storage driver, and a family of charts whose templates are literal
// YAML. Everything in helm's own action / storage / release-util / chartutil
// code runs for real.

import (
	"bytes"
	"encoding/json"
	"net/http"
	"fmt"
	"io"
	"sort"
	"strings"
	"time"

	apierrors "k8s.io/apimachinery/pkg/api/errors"
	"k8s.io/apimachinery/pkg/api/meta"
	metav1 "k8s.io/apimachinery/pkg/apis/meta/v1"
	"k8s.io/apimachinery/pkg/runtime"
	"k8s.io/apimachinery/pkg/runtime/schema"
	"k8s.io/cli-runtime/pkg/resource"
	"k8s.io/client-go/kubernetes/scheme"
	restfake "k8s.io/client-go/rest/fake"
	"sigs.k8s.io/yaml"

	chart "helm.sh/helm/v4/pkg/chart/v2"
	chartutil "helm.sh/helm/v4/pkg/chart/v2/util"
	"helm.sh/helm/v4/pkg/engine"
	"helm.sh/helm/v4/pkg/kube"
	release "helm.sh/helm/v4/pkg/release/v1"
	releaseutil "helm.sh/helm/v4/pkg/release/util"
	"helm.sh/helm/v4/pkg/storage"
	"helm.sh/helm/v4/pkg/storage/driver"
)

//verif:stub (helm.sh/helm/v4/pkg/engine.Engine).Render -> stubEngineRender
//verif:stub (*k8s.io/cli-runtime/pkg/resource.Helper).Get -> stubHelperGet

// ---- rendering cut: templates of the harness charts are literal YAML

func stubEngineRender(e engine.Engine, chrt *chart.Chart, values chartutil.Values) (map[string]string, error) {
	out := map[string]string{}
	var walk func(c *chart.Chart, prefix string)
	walk = func(c *chart.Chart, prefix string) {
		for _, t := range c.Templates {
			out[prefix+c.Name()+"/"+t.Name] = string(t.Data)
		}
		for _, d := range c.Dependencies() {
			walk(d, prefix+c.Name()+"/charts/")
		}
	}
	walk(chrt, "")
	return out, nil
}

// ---- model cluster

type objKey struct{ kind, ns, name string }

type symObj struct {
	metav1.TypeMeta   `json:",inline"`
	metav1.ObjectMeta `json:"metadata,omitempty"`
	Data              string `json:"-"`
}

func (o *symObj) DeepCopyObject() runtime.Object {
	c := *o
	c.Labels = copyStrMap(o.Labels)
	c.Annotations = copyStrMap(o.Annotations)
	return &c
}

func copyStrMap(m map[string]string) map[string]string {
	if m == nil {
		return nil
	}
	c := make(map[string]string, len(m))
	for k, v := range m {
		c[k] = v
	}
	return c
}

type docHead struct {
	APIVersion string `json:"apiVersion"`
	Kind       string `json:"kind"`
	Metadata   struct {
		Name        string            `json:"name"`
		Namespace   string            `json:"namespace"`
		Labels      map[string]string `json:"labels"`
		Annotations map[string]string `json:"annotations"`
	} `json:"metadata"`
	Data string `json:"data"`
}

type symKube struct {
	cluster   map[objKey]*symObj
	log       []string // every call, in order
	writes    []string // mutating calls only
	faults    *faultPlan
	who       string // label of the operation using this client (C09)
	namespace string
	failedWaitAt int // index in log of the WatchUntilReady call that was failed, or -1
}

var theKube *symKube // the cluster the resource.Helper cut reads

func newSymKube(f *faultPlan) *symKube {
	k := &symKube{cluster: map[objKey]*symObj{}, faults: f, namespace: "default", failedWaitAt: -1}
	theKube = k
	return k
}

func keyOf(info *resource.Info) objKey {
	kind := ""
	if info.Mapping != nil {
		kind = info.Mapping.GroupVersionKind.Kind
	}
	return objKey{kind, info.Namespace, info.Name}
}

func (k *symKube) note(write bool, format string, a ...interface{}) {
	s := fmt.Sprintf(format, a...)
	k.log = append(k.log, s)
	if write {
		k.writes = append(k.writes, s)
	}
}

func names(rl kube.ResourceList) string {
	var ns []string
	for _, r := range rl {
		ns = append(ns, keyOf(r).kind+"/"+r.Name)
	}
	return strings.Join(ns, ",")
}

func (k *symKube) IsReachable() error {
	k.note(false, "IsReachable")
	if k.faults.fail("kube.IsReachable") {
		return fmt.Errorf("injected: cluster unreachable")
	}
	return nil
}

func (k *symKube) Build(reader io.Reader, validate bool) (kube.ResourceList, error) {
	b, err := io.ReadAll(reader)
	if err != nil {
		return nil, err
	}
	k.note(false, "Build")
	if k.faults.fail("kube.Build") {
		return nil, fmt.Errorf("injected: build failed")
	}
	var rl kube.ResourceList
	docs := releaseutil.SplitManifests(string(b))
	keys := make([]string, 0, len(docs))
	for dk := range docs {
		keys = append(keys, dk)
	}
	sort.Sort(releaseutil.BySplitManifestsOrder(keys))
	for _, dk := range keys {
		var h docHead
		if err := yaml.Unmarshal([]byte(docs[dk]), &h); err != nil {
			return nil, err
		}
		if h.Kind == "" {
			continue
		}
		ns := h.Metadata.Namespace
		if ns == "" {
			ns = k.namespace
		}
		obj := &symObj{TypeMeta: metav1.TypeMeta{Kind: h.Kind, APIVersion: h.APIVersion},
			ObjectMeta: metav1.ObjectMeta{Name: h.Metadata.Name, Namespace: ns, Labels: h.Metadata.Labels, Annotations: h.Metadata.Annotations}, Data: h.Data}
		info := &resource.Info{Name: h.Metadata.Name, Namespace: ns, Object: obj,
			Mapping: &meta.RESTMapping{GroupVersionKind: schema.FromAPIVersionAndKind(h.APIVersion, h.Kind),
				Resource: schema.GroupVersionResource{Version: h.APIVersion, Resource: pluralOf(h.Kind)}, Scope: meta.RESTScopeNamespace}}
		if ndNative() {
			info.Client = nativeRESTClient(k)
		}
		rl = append(rl, info)
	}
	return rl, nil
}

func (k *symKube) Create(resources kube.ResourceList) (*kube.Result, error) {
	k.faults.crashPoint("kube.Create")
	k.note(true, "Create %s", names(resources))
	res := &kube.Result{}
	for _, r := range resources {
		if k.faults.fail("kube.Create") {
			return res, fmt.Errorf("injected: create %s rejected", r.Name)
		}
		if _, exists := k.cluster[keyOf(r)]; exists {
			return res, apierrors.NewAlreadyExists(schema.GroupResource{Resource: keyOf(r).kind}, r.Name)
		}
		k.cluster[keyOf(r)] = r.Object.(*symObj).DeepCopyObject().(*symObj)
		res.Created = append(res.Created, r)
	}
	return res, nil
}

// Update follows the documented contract of kube.Client.Update: create what is
// new in target, patch what exists, delete what is in original but not in
// target (unless the live object carries the keep policy).
func (k *symKube) Update(original, target kube.ResourceList, force bool) (*kube.Result, error) {
	k.faults.crashPoint("kube.Update")
	k.note(true, "Update %s -> %s", names(original), names(target))
	res := &kube.Result{}
	for _, r := range target {
		if k.faults.fail("kube.Update") {
			return res, fmt.Errorf("injected: update %s rejected", r.Name)
		}
		nu := r.Object.(*symObj).DeepCopyObject().(*symObj)
		if _, exists := k.cluster[keyOf(r)]; exists {
			k.cluster[keyOf(r)] = nu
			res.Updated = append(res.Updated, r)
		} else {
			k.cluster[keyOf(r)] = nu
			res.Created = append(res.Created, r)
		}
	}
	for _, r := range original.Difference(target) {
		live, exists := k.cluster[keyOf(r)]
		if !exists {
			continue
		}
		if live.Annotations[kube.ResourcePolicyAnno] == kube.KeepPolicy {
			continue
		}
		delete(k.cluster, keyOf(r))
		res.Deleted = append(res.Deleted, r)
	}
	return res, nil
}

func (k *symKube) UpdateThreeWayMerge(original, target kube.ResourceList, force bool) (*kube.Result, error) {
	return k.Update(original, target, force)
}

func (k *symKube) Delete(resources kube.ResourceList) (*kube.Result, []error) {
	k.faults.crashPoint("kube.Delete")
	k.note(true, "Delete %s", names(resources))
	res := &kube.Result{}
	var errs []error
	for _, r := range resources {
		if k.faults.fail("kube.Delete") {
			errs = append(errs, fmt.Errorf("injected: delete %s rejected", r.Name))
			continue
		}
		if _, exists := k.cluster[keyOf(r)]; exists {
			delete(k.cluster, keyOf(r))
			res.Deleted = append(res.Deleted, r)
		}
	}
	return res, errs
}

func (k *symKube) DeleteWithPropagationPolicy(resources kube.ResourceList, policy metav1.DeletionPropagation) (*kube.Result, []error) {
	return k.Delete(resources)
}

func (k *symKube) GetWaiter(ws kube.WaitStrategy) (kube.Waiter, error) {
	k.note(false, "GetWaiter")
	if k.faults.fail("kube.GetWaiter") {
		return nil, fmt.Errorf("injected: no waiter")
	}
	if ws == kube.HookOnlyStrategy {
		return hookOnlyModel{k}, nil // what `--wait` not given means: hooks are waited for, resources are not
	}
	return k, nil
}

// hookOnlyModel: the waiter of the hook-only strategy — readiness of the release's
// resources is NOT checked (no failure is possible there), hooks are still watched.
type hookOnlyModel struct{ k *symKube }

func (h hookOnlyModel) Wait(resources kube.ResourceList, timeout time.Duration) error {
	h.k.note(false, "HookOnlyWait %s", names(resources))
	return nil
}
func (h hookOnlyModel) WaitWithJobs(resources kube.ResourceList, timeout time.Duration) error {
	return h.Wait(resources, timeout)
}
func (h hookOnlyModel) WaitForDelete(resources kube.ResourceList, timeout time.Duration) error {
	h.k.note(false, "HookOnlyWaitForDelete %s", names(resources))
	return nil
}
func (h hookOnlyModel) WatchUntilReady(resources kube.ResourceList, timeout time.Duration) error {
	return h.k.WatchUntilReady(resources, timeout)
}

func (k *symKube) Wait(resources kube.ResourceList, timeout time.Duration) error {
	k.note(false, "Wait %s", names(resources))
	if k.faults.fail("waiter.Wait") {
		return fmt.Errorf("injected: resources never became ready")
	}
	return nil
}

func (k *symKube) WaitWithJobs(resources kube.ResourceList, timeout time.Duration) error {
	return k.Wait(resources, timeout)
}

func (k *symKube) WaitForDelete(resources kube.ResourceList, timeout time.Duration) error {
	k.note(false, "WaitForDelete %s", names(resources))
	if k.faults.fail("waiter.WaitForDelete") {
		return fmt.Errorf("injected: resources never went away")
	}
	return nil
}

func (k *symKube) WatchUntilReady(resources kube.ResourceList, timeout time.Duration) error {
	k.note(false, "WatchUntilReady %s", names(resources))
	if k.faults.fail("waiter.WatchUntilReady") {
		k.failedWaitAt = len(k.log) - 1
		return fmt.Errorf("injected: hook %s failed", names(resources))
	}
	return nil
}

var _ kube.Interface = (*symKube)(nil)
var _ kube.InterfaceThreeWayMerge = (*symKube)(nil)
var _ kube.InterfaceDeletionPropagation = (*symKube)(nil)

// stubHelperGet replaces the REST round trip of resource.Helper.Get by a lookup
// in the model cluster (engine only; natively a fake REST transport serves the
// same objects as JSON).
func stubHelperGet(h *resource.Helper, namespace, name string) (runtime.Object, error) {
	k := theKube
	k.note(false, "Get %s/%s", namespace, name)
	if k.faults.fail("kube.Get") { // the cluster rejects the read of the ownership check
		return nil, apierrors.NewForbidden(schema.GroupResource{Resource: h.Resource}, name, fmt.Errorf("injected"))
	}
	for key, o := range k.cluster {
		if key.ns == namespace && key.name == name && strings.EqualFold(pluralOf(key.kind), h.Resource) {
			return o.DeepCopyObject(), nil
		}
	}
	return nil, apierrors.NewNotFound(schema.GroupResource{Resource: h.Resource}, name)
}

func pluralOf(kind string) string { return strings.ToLower(kind) + "s" }

// ---- faults and crashes

type faultPlan struct {
	budget  int  // injected failures still allowed on this path
	crashes int  // process deaths still allowed
	dead    bool // the process of the current operation has died
	deadCh  chan struct{}
	fired   []string
	kinds   string // "kube", "storage", "both"
	forceSite string // setup only: fail deterministically at the first call of this site
	onlySite  string // restrict symbolic faults to this site
}

func (f *faultPlan) fail(site string) bool {
	if f == nil || f.budget <= 0 {
		return false
	}
	if f.forceSite != "" {
		if site == f.forceSite {
			f.budget--
			return true
		}
		return false
	}
	if f.onlySite != "" && site != f.onlySite {
		return false
	}
	if strings.HasPrefix(site, "kube.") || strings.HasPrefix(site, "waiter.") {
		if f.kinds == "storage" {
			return false
		}
	} else if f.kinds == "kube" {
		return false
	}
	if ndBool("fault@" + site) {
		f.budget--
		f.fired = append(f.fired, site)
		return true
	}
	return false
}

// crashPoint: the process may die here. The dying goroutine parks for ever (no
// deferred function runs, as in a real kill); the harness, waiting on deadCh,
// goes on to inspect what is stored.
func (f *faultPlan) crashPoint(site string) {
	if f == nil {
		return
	}
	if f.dead {
		select {}
	}
	if f.crashes <= 0 {
		return
	}
	if ndBool("crash@" + site) {
		f.crashes--
		f.dead = true
		f.fired = append(f.fired, "crash@"+site)
		close(f.deadCh)
		select {}
	}
}

// faultyDriver wraps the real memory driver with (a) injected write failures,
// (b) crash points, and (c) the persistence semantics of the Secret/ConfigMap
// backends: what is stored is a copy taken at Create/Update time, and reads hand
// out copies, so that mutating a release object in memory does not change the
// store until it is written (the memory driver alone stores the caller's pointer).
type faultyDriver struct {
	driver.Driver
	f      *faultPlan
	writes  []string
	created []int // revisions of the records created, in order
	who     string
}

func cloneRelease(r *release.Release) *release.Release {
	if r == nil {
		return nil
	}
	c := *r
	if r.Info != nil {
		i := *r.Info
		c.Info = &i
	}
	if r.Hooks != nil {
		c.Hooks = make([]*release.Hook, len(r.Hooks))
		for k, h := range r.Hooks {
			hc := *h
			hc.Events = append([]release.HookEvent(nil), h.Events...)
			hc.DeletePolicies = append([]release.HookDeletePolicy(nil), h.DeletePolicies...)
			c.Hooks[k] = &hc
		}
	}
	c.Labels = copyStrMap(r.Labels)
	return &c
}

func cloneAll(rs []*release.Release) []*release.Release {
	out := make([]*release.Release, len(rs))
	for k, r := range rs {
		out[k] = cloneRelease(r)
	}
	return out
}

func (d *faultyDriver) Create(key string, rls *release.Release) error {
	d.f.crashPoint("store.Create")
	d.writes = append(d.writes, "Create "+key)
	if d.f.fail("store.Create") {
		return fmt.Errorf("injected: storage create failed")
	}
	if _, gerr := d.Driver.Get(key); gerr != nil { // a duplicate key is refused by the store itself
		d.created = append(d.created, rls.Version)
	}
	return d.Driver.Create(key, cloneRelease(rls))
}

func (d *faultyDriver) Update(key string, rls *release.Release) error {
	d.f.crashPoint("store.Update")
	d.writes = append(d.writes, "Update "+key)
	if d.f.fail("store.Update") {
		return fmt.Errorf("injected: storage update failed")
	}
	return d.Driver.Update(key, cloneRelease(rls))
}

func (d *faultyDriver) Delete(key string) (*release.Release, error) {
	d.f.crashPoint("store.Delete")
	d.writes = append(d.writes, "Delete "+key)
	if d.f.fail("store.Delete") {
		return nil, fmt.Errorf("injected: storage delete failed")
	}
	r, err := d.Driver.Delete(key)
	return cloneRelease(r), err
}

func (d *faultyDriver) Get(key string) (*release.Release, error) {
	r, err := d.Driver.Get(key)
	return cloneRelease(r), err
}

func (d *faultyDriver) List(filter func(*release.Release) bool) ([]*release.Release, error) {
	rs, err := d.Driver.List(filter)
	return cloneAll(rs), err
}

func (d *faultyDriver) Query(labels map[string]string) ([]*release.Release, error) {
	rs, err := d.Driver.Query(labels)
	return cloneAll(rs), err
}

// ---- charts

const relName = "rel"

func cmDoc(name, data string, extraAnnotations string) string {
	s := "apiVersion: v1\nkind: ConfigMap\nmetadata:\n  name: " + name + "\n"
	if extraAnnotations != "" {
		s += "  annotations:\n" + extraAnnotations
	}
	return s + "data: " + data + "\n"
}

func hookDoc(name, events string, weight int, policy string) string {
	ann := fmt.Sprintf("    \"helm.sh/hook\": %q\n    \"helm.sh/hook-weight\": %q\n", events, fmt.Sprint(weight))
	if policy != "" {
		ann += fmt.Sprintf("    \"helm.sh/hook-delete-policy\": %q\n", policy)
	}
	return "apiVersion: batch/v1\nkind: Job\nmetadata:\n  name: " + name + "\n  annotations:\n" + ann + "data: h\n"
}

// mkChart builds chart variant v: 0 = {cm a}, 1 = {cm a (changed), cm b}, 2 = {cm b}
// withHook adds one hook document that runs on every lifecycle event.
func mkChart(v int, withHook bool) *chart.Chart {
	c := &chart.Chart{Metadata: &chart.Metadata{Name: "c", Version: "0.1.0", APIVersion: chart.APIVersionV2}}
	switch v {
	case 0:
		c.Templates = append(c.Templates, &chart.File{Name: "templates/a.yaml", Data: []byte(cmDoc("a", "v0", ""))})
	case 1:
		c.Templates = append(c.Templates, &chart.File{Name: "templates/a.yaml", Data: []byte(cmDoc("a", "v1", ""))})
		c.Templates = append(c.Templates, &chart.File{Name: "templates/b.yaml", Data: []byte(cmDoc("b", "v1", ""))})
	case 2:
		c.Templates = append(c.Templates, &chart.File{Name: "templates/b.yaml", Data: []byte(cmDoc("b", "v2", ""))})
	}
	if withHook {
		c.Templates = append(c.Templates, &chart.File{Name: "templates/hook.yaml",
			Data: []byte(hookDoc("hk", "pre-install,post-install,pre-upgrade,post-upgrade,pre-rollback,post-rollback,pre-delete,post-delete", 0, ""))})
	}
	return c
}

// ---- configuration

type world struct {
	kube  *symKube
	store *faultyDriver
	mem   *driver.Memory
	f     *faultPlan
}

func newWorld(f *faultPlan) *world {
	mem := driver.NewMemory()
	w := &world{kube: newSymKube(f), mem: mem, f: f}
	w.store = &faultyDriver{Driver: mem, f: f}
	return w
}

// runOp runs one helm operation as its own "process": if it dies at a crash
// point the harness carries on with what is stored.
func (w *world) runOp(op func() error) (err error, crashed bool) {
	done := make(chan error, 1)
	go func() { done <- op() }()
	select {
	case e := <-done:
		return e, false
	case <-w.f.deadCh:
		// the next operation is a new process
		w.f.dead = false
		w.f.deadCh = make(chan struct{})
		return nil, true
	}
}

func newFaultPlan(budget, crashes int, kinds string) *faultPlan {
	return &faultPlan{budget: budget, crashes: crashes, kinds: kinds, deadCh: make(chan struct{})}
}

func (w *world) config() *Configuration {
	return &Configuration{Releases: storage.Init(w.store), KubeClient: w.kube, Capabilities: chartutil.DefaultCapabilities}
}

// history returns the stored records oldest first (read straight from the memory driver).
func (w *world) history() []*release.Release {
	h, err := w.mem.Query(map[string]string{"name": relName, "owner": "helm"})
	if err != nil {
		return nil
	}
	releaseutil.SortByRevision(h)
	return h
}

func histString(h []*release.Release) string {
	var sb bytes.Buffer
	for _, r := range h {
		fmt.Fprintf(&sb, "%d:%s ", r.Version, r.Info.Status)
	}
	return sb.String()
}

// nativeRESTClient (native replay only): a fake REST transport that serves the
// model cluster's objects as JSON, so that the real resource.Helper.Get runs.
func nativeRESTClient(k *symKube) resource.RESTClient {
	return &restfake.RESTClient{
		GroupVersion:         schema.GroupVersion{Version: "v1"},
		NegotiatedSerializer: scheme.Codecs.WithoutConversion(),
		Client: restfake.CreateHTTPClient(func(req *http.Request) (*http.Response, error) {
			parts := strings.Split(strings.Trim(req.URL.Path, "/"), "/")
			header := http.Header{}
			header.Set("Content-Type", runtime.ContentTypeJSON)
			k.note(false, "Get %s", req.URL.Path)
			if k.faults.fail("kube.Get") {
				st := `{"kind":"Status","apiVersion":"v1","status":"Failure","message":"injected","reason":"Forbidden","code":403}`
				return &http.Response{StatusCode: http.StatusForbidden, Header: header, Body: io.NopCloser(strings.NewReader(st))}, nil
			}
			if len(parts) >= 4 && parts[len(parts)-4] == "namespaces" {
				ns, res, name := parts[len(parts)-3], parts[len(parts)-2], parts[len(parts)-1]
				for key, o := range k.cluster {
					if key.ns == ns && key.name == name && strings.EqualFold(pluralOf(key.kind), res) {
						b, _ := json.Marshal(o)
						return &http.Response{StatusCode: http.StatusOK, Header: header, Body: io.NopCloser(bytes.NewReader(b))}, nil
					}
				}
			}
			st := `{"kind":"Status","apiVersion":"v1","status":"Failure","message":"not found","reason":"NotFound","code":404}`
			return &http.Response{StatusCode: http.StatusNotFound, Header: header, Body: io.NopCloser(strings.NewReader(st))}, nil
		}),
	}
}
