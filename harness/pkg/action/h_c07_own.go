package action

// C07 — install and upgrade refuse, before changing anything, when a resource
// they would create already exists and is not labelled/annotated as belonging
// to this very release (unless take-ownership); everything helm creates carries
// the ownership metadata. H07Own: the real checkOwnership / requireValue /
// setMetadataVisitor / merge* on an object whose label and annotation values
// are symbolic strings. H07Gate: install/upgrade end to end against a model
// cluster that already holds the object in a symbolic ownership state.

import (
	"strings"

	chart "helm.sh/helm/v4/pkg/chart/v2"

	metav1 "k8s.io/apimachinery/pkg/apis/meta/v1"
	"k8s.io/apimachinery/pkg/api/meta"
	"k8s.io/apimachinery/pkg/runtime/schema"
	"k8s.io/cli-runtime/pkg/resource"
)

func ndShort(name string, max int) string {
	return ndStringIn(name, ndIntRange(name+".len", 0, max), "Helmab")
}

func H07Own() {
	relN := ndShort("relname", 2)
	relNS := ndShort("relns", 2)
	// namespaced or cluster-scoped (no namespace): the three requirements are the same
	objNS := []string{"default", ""}[ndChoice("objNamespace", 2)]
	obj := &symObj{TypeMeta: metav1.TypeMeta{Kind: "ConfigMap", APIVersion: "v1"}, ObjectMeta: metav1.ObjectMeta{Name: "a", Namespace: objNS}}
	hasL, hasN, hasS := ndBool("hasManagedBy"), ndBool("hasNameAnno"), ndBool("hasNsAnno")
	var lv, nv, sv string
	obj.Labels = map[string]string{"keep-label": "x"}
	obj.Annotations = map[string]string{"keep-anno": "y"}
	if hasL {
		lv = ndShort("managedBy", 4)
		obj.Labels[appManagedByLabel] = lv
	}
	if hasN {
		nv = ndShort("nameAnno", 2)
		obj.Annotations[helmReleaseNameAnnotation] = nv
	}
	if hasS {
		sv = ndShort("nsAnno", 2)
		obj.Annotations[helmReleaseNamespaceAnnotation] = sv
	}
	err := checkOwnership(obj, relN, relNS)
	owned := hasL && lv == "Helm" && hasN && nv == relN && hasS && sv == relNS
	vAssert("own/accepted-iff-all-three-match", (err == nil) == owned)

	info := &resource.Info{Name: "a", Namespace: objNS, Object: obj,
		Mapping: &meta.RESTMapping{GroupVersionKind: schema.GroupVersionKind{Version: "v1", Kind: "ConfigMap"}}}
	force := ndBool("force")
	verr := setMetadataVisitor(relN, relNS, force)(info, nil)
	if force || owned {
		vAssert("visitor/ok", verr == nil)
		vAssert("visitor/managed-by-set", obj.Labels[appManagedByLabel] == "Helm")
		vAssert("visitor/release-name-set", obj.Annotations[helmReleaseNameAnnotation] == relN)
		vAssert("visitor/release-namespace-set", obj.Annotations[helmReleaseNamespaceAnnotation] == relNS)
		vAssert("visitor/other-metadata-kept", obj.Labels["keep-label"] == "x" && obj.Annotations["keep-anno"] == "y")
	} else {
		vAssert("visitor/refuses-foreign-object", verr != nil)
	}
}

// ownership states of the pre-existing live object
var ownStates = []string{"absent", "unlabelled", "managed-by-only", "owned", "other-release", "other-namespace"}

func plantObject(w *world, name string, state int) { plantObjectNS(w, name, "default", state) }

func plantObjectNS(w *world, name, ns string, state int) {
	if state == 0 {
		return
	}
	o := &symObj{TypeMeta: metav1.TypeMeta{Kind: "ConfigMap", APIVersion: "v1"}, ObjectMeta: metav1.ObjectMeta{Name: name, Namespace: ns}, Data: "foreign"}
	switch state {
	case 2:
		o.Labels = map[string]string{appManagedByLabel: appManagedByHelm}
	case 3:
		o.Labels = map[string]string{appManagedByLabel: appManagedByHelm}
		o.Annotations = map[string]string{helmReleaseNameAnnotation: relName, helmReleaseNamespaceAnnotation: "default"}
	case 4:
		o.Labels = map[string]string{appManagedByLabel: appManagedByHelm}
		o.Annotations = map[string]string{helmReleaseNameAnnotation: "other", helmReleaseNamespaceAnnotation: "default"}
	case 5:
		o.Labels = map[string]string{appManagedByLabel: appManagedByHelm}
		o.Annotations = map[string]string{helmReleaseNameAnnotation: relName, helmReleaseNamespaceAnnotation: "elsewhere"}
	}
	w.kube.cluster[objKey{"ConfigMap", ns, name}] = o
}

// H07GateNamespace: the upgrade adds an object with the same kind and name as
// one the release already owns, but in ANOTHER namespace, where a foreign
// object of that name lives: identity includes the namespace.
func H07GateNamespace() {
	w := newWorld(newFaultPlan(0, 0, "kube"))
	prepareHistory(w, 1) // owns ConfigMap default/a
	state := ndChoice("ownership", len(ownStates))
	plantObjectNS(w, "a", "other", state)
	before := histString(w.history())
	w.kube.log, w.kube.writes, w.store.writes = nil, nil, nil
	c := mkChart(0, false)
	c.Templates = append(c.Templates, &chart.File{Name: "templates/a-other.yaml",
		Data: []byte("apiVersion: v1\nkind: ConfigMap\nmetadata:\n  name: a\n  namespace: other\ndata: v9\n")})
	u := NewUpgrade(w.config())
	u.Namespace = "default"
	u.TakeOwnership = ndBool("takeOwnership")
	_, err := u.Run(relName, c, map[string]interface{}{})
	vTag("namespace-variant state=" + ownStates[state])
	foreign := state != 0 && state != 3
	live := w.kube.cluster[objKey{"ConfigMap", "other", "a"}]
	if foreign && !u.TakeOwnership {
		vAssert("gate-ns/refused", err != nil)
		vAssert("gate-ns/refused-before-any-write", len(w.kube.writes) == 0 && len(w.store.writes) == 0 && histString(w.history()) == before)
		vAssert("gate-ns/foreign-object-untouched", live != nil && live.Data == "foreign")
	} else {
		vAssert("gate-ns/accepted", err == nil && live != nil && live.Annotations[helmReleaseNameAnnotation] == relName)
	}
}

func H07Gate() {
	w := newWorld(newFaultPlan(0, 0, "kube"))
	upgrade := ndBool("upgrade")
	if upgrade {
		prepareHistory(w, 1) // 1:deployed with {cm a}
	}
	state := ndChoice("ownership", len(ownStates))
	// the resource the operation newly creates: "a" for install, "b" for the upgrade to chart 1
	newName := "a"
	if upgrade {
		newName = "b"
	}
	plantObject(w, newName, state)
	before := histString(w.history())
	w.kube.log, w.kube.writes, w.store.writes = nil, nil, nil
	take := ndBool("takeOwnership")
	var err error
	if upgrade {
		u := NewUpgrade(w.config())
		u.Namespace, u.TakeOwnership = "default", take
		u.Atomic, u.CleanupOnFail, u.Force = ndBool("atomic"), ndBool("cleanup"), ndBool("force")
		_, err = u.Run(relName, mkChart(1, false), map[string]interface{}{})
	} else {
		i := NewInstall(w.config())
		i.ReleaseName, i.Namespace, i.TakeOwnership = relName, "default", take
		i.Replace, i.Atomic, i.CreateNamespace, i.Force = ndBool("replace"), ndBool("atomic"), ndBool("createNamespace"), ndBool("force")
		_, err = i.Run(mkChart(0, false), map[string]interface{}{})
	}
	vTag("upgrade=" + map[bool]string{true: "true", false: "false"}[upgrade] + " state=" + ownStates[state])
	foreign := state != 0 && state != 3
	if foreign && !take {
		vAssert("gate/refused", err != nil)
		vAssert("gate/refused-before-any-cluster-write", len(w.kube.writes) == 0)
		vAssert("gate/refused-before-any-storage-write", len(w.store.writes) == 0)
		vAssert("gate/history-unchanged", histString(w.history()) == before)
		live := w.kube.cluster[objKey{"ConfigMap", "default", newName}]
		vAssert("gate/foreign-object-untouched", live != nil && live.Data == "foreign")
	} else {
		vAssert("gate/accepted", err == nil)
		live := w.kube.cluster[objKey{"ConfigMap", "default", newName}]
		vAssert("gate/created-object-carries-ownership", live != nil && live.Labels[appManagedByLabel] == appManagedByHelm &&
			live.Annotations[helmReleaseNameAnnotation] == relName && live.Annotations[helmReleaseNamespaceAnnotation] == "default")
	}
	vObservef("upgrade=%v state=%s take=%v err=%v writes=%s", upgrade, ownStates[state], take, err != nil, strings.Join(w.kube.writes, ";"))
}
