package action

// C13 (chains) — "all chains of upgrades and rollbacks with every flag choice per
// step": install with values A, then `steps` operations, each an upgrade with
// symbolic flags and new values (optionally preceded by an upgrade that fails at
// the cluster) or a rollback to a symbolic earlier revision. After every step
// the recorded user values and the chart defaults in force of the new revision
// are compared with a reference model that carries (values, defaults) of the
// DEPLOYED revision forward exactly as the property words it.

import (
	"fmt"
	"reflect"

	release "helm.sh/helm/v4/pkg/release/v1"
)

type c13State struct {
	cfg      map[string]interface{}
	defaults map[string]interface{}
}

func c13Copy(m map[string]interface{}) map[string]interface{} {
	return deepCopy(m).(map[string]interface{})
}

func c13Overlay(lo, hi map[string]interface{}) map[string]interface{} {
	out := c13Copy(lo)
	for k, v := range hi {
		out[k] = v
	}
	return out
}

func H13Chain() {
	w := newWorld(newFaultPlan(0, 0, "kube"))
	steps := vBound("chainsteps", 2)
	st := c13State{cfg: map[string]interface{}{"k": "a", "onlyA": int64(1)}, defaults: map[string]interface{}{"def": "v1"}}
	inst := NewInstall(w.config())
	inst.ReleaseName, inst.Namespace = relName, "default"
	if _, err := inst.Run(chartWithDefaults(0, "0.1.0", c13Copy(st.defaults)), c13Copy(st.cfg)); err != nil {
		vFail("setup/install")
	}
	byRev := map[int]c13State{1: st}
	for s := 0; s < steps; s++ {
		tagStep := fmt.Sprintf("step%d", s)
		pre := w.history()
		last := pre[len(pre)-1].Version
		if ndBool(tagStep + ".rollback") {
			// to any revision that was ever deployed
			target := ndIntRange(tagStep+".target", 1, last)
			tst, ok := byRev[target]
			vAssume(ok)
			rb := NewRollback(w.config())
			rb.Version = target
			vAssert("chain/rollback-succeeds", rb.Run(relName) == nil)
			h := w.history()
			rec := h[len(h)-1]
			vAssert("chain/rollback-restores-the-target-revisions-values", rec.Info.Status == release.StatusDeployed && reflect.DeepEqual(rec.Config, tst.cfg))
			vAssert("chain/rollback-restores-the-target-revisions-defaults", reflect.DeepEqual(rec.Chart.Values, tst.defaults))
			st = tst
			byRev[rec.Version] = st
			continue
		}
		if ndBool(tagStep + ".failedUpgradeFirst") {
			w.f.budget, w.f.kinds, w.f.forceSite = 1, "kube", "kube.Update"
			up := NewUpgrade(w.config())
			up.Namespace, up.ResetValues = "default", true
			if _, err := up.Run(relName, chartWithDefaults(1, "9.9.9", map[string]interface{}{"def": "failed"}), map[string]interface{}{"k": "failed", "onlyFailed": int64(9)}); err == nil {
				vFail("setup/upgrade-should-fail")
			}
			w.f.budget, w.f.forceSite = 0, ""
		}
		given := map[string]interface{}{}
		if ndBool(tagStep + ".newValuesGiven") {
			given["k"] = fmt.Sprintf("s%d", s)
			given[fmt.Sprintf("only%d", s)] = int64(s)
		}
		newDefaults := map[string]interface{}{"def": fmt.Sprintf("v%d", s+2)}
		u := NewUpgrade(w.config())
		u.Namespace = "default"
		u.ResetValues, u.ReuseValues, u.ResetThenReuseValues = ndBool(tagStep+".reset"), ndBool(tagStep+".reuse"), ndBool(tagStep+".resetThenReuse")
		rel, err := u.Run(relName, chartWithDefaults(s%2, fmt.Sprintf("0.%d.0", s+2), c13Copy(newDefaults)), c13Copy(given))
		vAssert("chain/upgrade-succeeds", err == nil && rel != nil)
		var want c13State
		switch {
		case u.ResetValues:
			want = c13State{given, newDefaults}
		case u.ReuseValues:
			want = c13State{c13Overlay(st.cfg, given), c13Overlay(st.defaults, st.cfg)}
		case u.ResetThenReuseValues:
			want = c13State{c13Overlay(st.cfg, given), newDefaults}
		case len(given) > 0:
			want = c13State{given, newDefaults}
		default:
			want = c13State{st.cfg, newDefaults}
		}
		h := w.history()
		rec := h[len(h)-1]
		vTag(fmt.Sprintf("step=%d reset=%v reuse=%v rtr=%v given=%d", s, u.ResetValues, u.ReuseValues, u.ResetThenReuseValues, len(given)))
		vAssert("chain/recorded-values-follow-the-flag", rec.Info.Status == release.StatusDeployed && reflect.DeepEqual(rec.Config, want.cfg))
		vAssert("chain/defaults-in-force-follow-the-flag", reflect.DeepEqual(rec.Chart.Values, want.defaults))
		st = want
		byRev[rec.Version] = st
	}
	vObservef("hist=%s", histString(w.history()))
}
