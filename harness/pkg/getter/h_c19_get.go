package getter

// C19 — repository credentials are attached only to requests whose scheme,
// host and port equal those of the repository URL (unless pass-credentials).
// Runs the real HTTPGetter.Get/get, http.NewRequest, net/url.Parse (from the
// standard library's source, on symbolic bytes) and Request.SetBasicAuth. The
// network is cut at (*http.Client).Do (class S): the request is captured; the
// native replay captures it in a local test server reached through overridden
// dialers, so no DNS or TLS is involved.

import (
	"context"
	"io"
	"net"
	"net/http"
	"net/http/httptest"
	"strings"
)

//verif:stub (*net/http.Client).Do -> stubClientDo

var capAuth, capScheme, capHost string
var capSeen bool

func stubClientDo(c *http.Client, req *http.Request) (*http.Response, error) {
	capSeen = true
	capAuth = req.Header.Get("Authorization")
	capScheme, capHost = req.URL.Scheme, req.URL.Host
	return &http.Response{StatusCode: http.StatusOK, Status: "200 OK", Body: io.NopCloser(strings.NewReader("ok"))}, nil
}

type origin struct{ scheme, user, host, port string }

func (o origin) url(path string) string {
	s := o.scheme + "://"
	if o.user != "" {
		s += o.user + "@"
	}
	s += o.host
	if o.port != "" {
		s += ":" + o.port
	}
	return s + path
}

var schemes = []string{"http", "https", "HTTP"}
var ports = []string{"", "80", "443", "8"}

func ndOrigin(name string, full bool) origin {
	o := origin{}
	ns, np := 2, 2
	if full {
		ns, np = len(schemes), len(ports)
	}
	o.scheme = schemes[ndChoice(name+".scheme", ns)]
	o.host = ndStringIn(name+".host", ndIntRange(name+".host.len", 1, vBound("hostlen", 2)), "ab.A")
	o.port = ports[ndChoice(name+".port", np)]
	if full {
		o.user = []string{"", "a", "a:a"}[ndChoice(name+".userinfo", 3)]
	}
	return o
}

func H19Get() {
	repo := ndOrigin("repo", vBound("fullrepo", 0) == 1)
	reqO := ndOrigin("req", true)
	passAll := ndBool("passCredentialsAll")
	// credentials: none / complete / user name only
	cred := ndChoice("credentials", 3)
	hasUser, hasPass := cred >= 1, cred == 1
	user, pass := "", ""
	if hasUser {
		user = "u"
	}
	if hasPass {
		pass = "p"
	}
	const repoAuth = "Basic dTpw" // base64("u:p")
	opts := []Option{WithURL(repo.url("/index.yaml")), WithBasicAuth(user, pass), WithPassCredentialsAll(passAll)}
	capSeen, capAuth, capScheme, capHost = false, "", "", ""
	var srv *httptest.Server
	if ndNative() {
		srv = httptest.NewServer(http.HandlerFunc(func(w http.ResponseWriter, r *http.Request) {
			capSeen, capAuth, capHost = true, r.Header.Get("Authorization"), r.Host
			w.Write([]byte("ok"))
		}))
		defer srv.Close()
		dial := func(ctx context.Context, network, addr string) (net.Conn, error) {
			return (&net.Dialer{}).DialContext(ctx, "tcp", srv.Listener.Addr().String())
		}
		opts = append(opts, WithTransport(&http.Transport{DialContext: dial, DialTLSContext: dial, DisableKeepAlives: true}))
	}
	g, err := NewHTTPGetter(opts...)
	if err != nil {
		vFail("setup/getter")
	}
	_, gerr := g.Get(reqO.url("/chart.tgz"))
	if gerr != nil || !capSeen {
		// the URL was rejected before any request was made: nothing can leak
		vAssert("rejected/no-request-sent", !capSeen)
		return
	}
	sameScheme := strings.EqualFold(repo.scheme, reqO.scheme)
	sameHost := strings.EqualFold(repo.host, reqO.host)
	samePort := repo.port == reqO.port
	// (a request URL carrying its own userinfo makes Go's client add that as Basic
	// auth; only the REPOSITORY's credentials are the subject here)
	if capAuth == repoAuth {
		vAssert("auth/only-to-the-repository-origin", passAll || (sameScheme && sameHost && samePort))
		vAssert("auth/only-when-configured", hasUser && hasPass)
	}
	if hasUser && hasPass && (passAll || (repo.scheme == reqO.scheme && repo.host == reqO.host && repo.port == reqO.port)) {
		vAssert("auth/sent-to-own-origin", capAuth == repoAuth)
	}
	vObservef("auth=%v", capAuth == repoAuth)
}
