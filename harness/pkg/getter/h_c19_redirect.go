package getter

// C19 (redirects) — "requests to any other origin (… redirects to an unrelated
// domain) carry no Authorization header". Runs the real HTTPGetter and the real
// net/http client redirect loop (Client.do, redirectBehavior, makeHeadersCopier,
// shouldCopyHeaderOnRedirect, any CheckRedirect hook the getter installs) from
// the standard library's source. The network is cut one level lower than in
// H19Get, at (*http.Transport).RoundTrip (class S): the first answer is a
// redirect to a symbolic target, the second a 200; every request is captured.
// Natively a local server behind overridden dialers plays both hosts.

import (
	"context"
	"io"
	"net"
	"net/http"
	"net/http/httptest"
	"strings"
)

//verif:stub (*net/http.Transport).RoundTrip -> rdRoundTrip

type rdReq struct{ url, auth string }

var (
	rdReqs   []rdReq
	rdTarget string
	rdCode   int
)

func rdRoundTrip(t *http.Transport, req *http.Request) (*http.Response, error) {
	rdReqs = append(rdReqs, rdReq{req.URL.String(), req.Header.Get("Authorization")})
	if len(rdReqs) == 1 {
		return &http.Response{StatusCode: rdCode, Status: "redirect", Header: http.Header{"Location": []string{rdTarget}},
			Body: io.NopCloser(strings.NewReader("")), Request: req, ProtoMajor: 1, ProtoMinor: 1}, nil
	}
	return &http.Response{StatusCode: 200, Status: "200 OK", Header: http.Header{}, Body: io.NopCloser(strings.NewReader("ok")), Request: req, ProtoMajor: 1, ProtoMinor: 1}, nil
}

var rdTargets = []string{
	"http://repo.test/moved/chart.tgz",      // same origin
	"http://cdn.other.test/chart.tgz",       // unrelated domain
	"http://repo.test.evil.test/chart.tgz",  // unrelated domain that starts like the repository's
	"http://eporepo.test/chart.tgz",         // unrelated domain that ends like the repository's
}
var rdUnrelated = []bool{false, true, true, true}

func H19Redirect() {
	which := ndChoice("target", len(rdTargets))
	rdTarget = rdTargets[which]
	rdCode = []int{301, 302, 303, 307, 308}[ndChoice("code", 5)]
	passAll := ndBool("passCredentialsAll")
	const repoAuth = "Basic dTpw"
	opts := []Option{WithURL("http://repo.test/index.yaml"), WithBasicAuth("u", "p"), WithPassCredentialsAll(passAll)}
	rdReqs = nil
	if ndNative() {
		srv := httptest.NewServer(http.HandlerFunc(func(w http.ResponseWriter, r *http.Request) {
			rdReqs = append(rdReqs, rdReq{"http://" + r.Host + r.URL.Path, r.Header.Get("Authorization")})
			if len(rdReqs) == 1 {
				http.Redirect(w, r, rdTarget, rdCode)
				return
			}
			w.Write([]byte("ok"))
		}))
		defer srv.Close()
		dial := func(ctx context.Context, network, addr string) (net.Conn, error) {
			return (&net.Dialer{}).DialContext(ctx, "tcp", srv.Listener.Addr().String())
		}
		opts = append(opts, WithTransport(&http.Transport{DialContext: dial, DialTLSContext: dial, DisableKeepAlives: true}))
	}
	g, err := NewHTTPGetter(opts...)
	if err != nil {
		vFail("setup/getter")
	}
	_, gerr := g.Get("http://repo.test/charts/chart.tgz")
	vAssert("redirect/followed", gerr == nil && len(rdReqs) == 2)
	vAssert("redirect/first-request-to-own-origin-carries-credentials", rdReqs[0].auth == repoAuth)
	if rdUnrelated[which] && !passAll {
		vAssert("redirect/no-credentials-to-an-unrelated-domain", rdReqs[1].auth != repoAuth)
	}
	vObservef("target=%d code=%d second-auth=%v", which, rdCode, rdReqs[1].auth == repoAuth)
}
