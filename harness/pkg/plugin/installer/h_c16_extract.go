package installer

// C16 — plugin archive extraction as a whole: whatever tar stream is given,
// (*TarGzExtractor).Extract either fails or creates directories and files only
// inside the target directory, never creates a symlink or hard link, and refuses
// every entry type other than directory / regular file / pax header. Runs the
// real Extract loop, cleanJoin and securejoin. Cuts (class S): gzip/tar byte
// streams → a list of (name, typeflag) records; os.MkdirAll / os.Mkdir /
// os.OpenFile / os.Symlink / os.Link → a log of (operation, path); io.Copy → no
// data. os.Lstat: nothing exists (fresh destination; shared with H16CleanJoin).
// Natively a real .tar.gz is extracted into a temporary directory and the
// directory tree is walked instead of the log.

import (
	"archive/tar"
	"bytes"
	"compress/gzip"
	"fmt"
	"io"
	"io/fs"
	"os"
	"path"
	"path/filepath"
	"strings"
	"syscall"
)

//verif:stub compress/gzip.NewReader -> xGzipNewReader
//verif:stub archive/tar.NewReader -> xTarNewReader
//verif:stub (*archive/tar.Reader).Next -> xTarNext
//verif:stub io.Copy -> xIOCopy
//verif:stub os.MkdirAll -> xMkdirAll
//verif:stub os.Mkdir -> xMkdir
//verif:stub os.OpenFile -> xOpenFile
//verif:stub (*os.File).Close -> xFileClose
//verif:stub os.Symlink -> xSymlink
//verif:stub os.Link -> xLink

type xEntry struct {
	name     string
	typeflag byte
}

type xOp struct{ op, path string }

var (
	xEntries []xEntry
	xPos     int
	xOps     []xOp
)

var _ = os.Symlink
var _ = os.Link

func xGzipNewReader(r io.Reader) (*gzip.Reader, error) { return &gzip.Reader{}, nil }
func xTarNewReader(r io.Reader) *tar.Reader              { return &tar.Reader{} }
func xTarNext(tr *tar.Reader) (*tar.Header, error) {
	if xPos >= len(xEntries) {
		return nil, io.EOF
	}
	e := xEntries[xPos]
	xPos++
	tf := e.typeflag
	if tf == tar.TypeRegA { // what the real reader does with the legacy regular-file flag
		tf = tar.TypeReg
		if strings.HasSuffix(e.name, "/") {
			tf = tar.TypeDir
		}
	}
	return &tar.Header{Name: e.name, Typeflag: tf, Linkname: "/etc/passwd", Mode: 0o644}, nil
}
func xIOCopy(dst io.Writer, src io.Reader) (int64, error) { return 0, nil }
// model file system: path → 'd' | 'f'; only the parent of the target exists at first
var xFS map[string]byte

func xParentIsDir(p string) bool { return xFS[path.Dir(p)] == 'd' }

func xMkdirAll(p string, perm os.FileMode) error {
	xOps = append(xOps, xOp{"mkdirall", p})
	for q := p; q != "/" && q != "."; q = path.Dir(q) {
		if xFS[q] == 'f' {
			return &fs.PathError{Op: "mkdir", Path: q, Err: syscall.ENOTDIR}
		}
		xFS[q] = 'd'
	}
	return nil
}
func xMkdir(p string, perm os.FileMode) error {
	if xFS[p] != 0 {
		return &fs.PathError{Op: "mkdir", Path: p, Err: syscall.EEXIST}
	}
	if !xParentIsDir(p) {
		return &fs.PathError{Op: "mkdir", Path: p, Err: syscall.ENOENT}
	}
	xOps = append(xOps, xOp{"mkdir", p})
	xFS[p] = 'd'
	return nil
}
func xOpenFile(p string, flag int, perm os.FileMode) (*os.File, error) {
	if xFS[p] == 'd' {
		return nil, &fs.PathError{Op: "open", Path: p, Err: syscall.EISDIR}
	}
	if !xParentIsDir(p) {
		return nil, &fs.PathError{Op: "open", Path: p, Err: syscall.ENOENT}
	}
	xOps = append(xOps, xOp{"open", p})
	xFS[p] = 'f'
	return &os.File{}, nil
}
func xFileClose(f *os.File) error { return nil }
func xSymlink(oldname, newname string) error {
	xOps = append(xOps, xOp{"symlink", newname})
	return nil
}
func xLink(oldname, newname string) error {
	xOps = append(xOps, xOp{"link", newname})
	return nil
}

func xRawTarHeader(name string, typeflag byte) []byte {
	b := make([]byte, 512)
	copy(b[0:100], name)
	copy(b[100:108], "0000644\x00")
	copy(b[108:116], "0000000\x00")
	copy(b[116:124], "0000000\x00")
	copy(b[124:136], fmt.Sprintf("%011o\x00", 0))
	copy(b[136:148], "00000000000\x00")
	copy(b[148:156], "        ")
	b[156] = typeflag
	if typeflag == tar.TypeSymlink || typeflag == tar.TypeLink {
		copy(b[157:257], "/etc/passwd")
	}
	copy(b[257:263], "ustar\x00")
	copy(b[263:265], "00")
	sum := 0
	for _, c := range b {
		sum += int(c)
	}
	copy(b[148:156], fmt.Sprintf("%06o\x00 ", sum))
	return b
}

var xTypeMenu = []byte{tar.TypeReg, tar.TypeDir, tar.TypeSymlink, tar.TypeLink, tar.TypeChar, tar.TypeFifo, tar.TypeRegA}

func H16Extract() {
	n := ndIntRange("entries", 1, vBound("xentries", 2))
	es := make([]xEntry, n)
	for i := range es {
		l := ndIntRange("namelen", 1, vBound("xnamelen", 4))
		es[i].name = ndStringIn("name", l, "ab./\\:")
		es[i].typeflag = xTypeMenu[ndChoice("type", len(xTypeMenu))]
	}
	var base, root string
	var err error
	if ndNative() {
		base, err = os.MkdirTemp("", "verif-c16x-")
		if err != nil {
			vrDiverged("no temp dir")
		}
		defer os.RemoveAll(base)
		root = filepath.Join(base, "t")
		var buf bytes.Buffer
		zw := gzip.NewWriter(&buf)
		for _, e := range es {
			zw.Write(xRawTarHeader(e.name, e.typeflag))
		}
		zw.Write(make([]byte, 1024))
		zw.Close()
		err = (&TarGzExtractor{}).Extract(&buf, root)
	} else {
		base = "/verif-no-such-root"
		root = base + "/t"
		xEntries, xPos, xOps, xFS = es, 0, nil, map[string]byte{base: 'd'}
		err = (&TarGzExtractor{}).Extract(bytes.NewBuffer(nil), root)
	}
	// what now exists under base (relative), and of which kind
	type made struct {
		rel  string
		link bool
	}
	var all []made
	if ndNative() {
		filepath.WalkDir(base, func(p string, d fs.DirEntry, werr error) error {
			if werr != nil || p == base {
				return nil
			}
			rel, _ := filepath.Rel(base, p)
			all = append(all, made{filepath.ToSlash(rel), d.Type()&fs.ModeSymlink != 0})
			return nil
		})
	} else {
		seen := map[string]bool{}
		for _, o := range xOps {
			vAssert("extract/writes-below-base", strings.HasPrefix(o.path, base+"/"))
			if !seen[o.path] {
				seen[o.path] = true
				all = append(all, made{strings.TrimPrefix(o.path, base+"/"), o.op == "symlink" || o.op == "link"})
			}
		}
	}
	for _, m := range all {
		vAssert("extract/created-only-inside-target", m.rel == "t" || strings.HasPrefix(m.rel, "t/"))
		vAssert("extract/no-dotdot-component", !strings.Contains("/"+m.rel+"/", "/../"))
		vAssert("extract/no-link-created", !m.link)
	}
	// an archive containing a link or device entry is refused as a whole or at that entry
	bad := false
	for _, e := range es {
		if e.typeflag != tar.TypeReg && e.typeflag != tar.TypeDir && e.typeflag != tar.TypeRegA {
			bad = true
		}
	}
	if bad {
		vAssert("extract/link-and-device-entries-refused", err != nil)
	}
	vObservef("n=%d err=%v made=%d", n, err != nil, len(all))
}
