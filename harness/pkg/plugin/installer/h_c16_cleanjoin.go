package installer

// C16 — plugin archive extraction: every path Extract writes to comes from
// cleanJoin(root, header name); whatever cleanJoin accepts lies inside root.
// Runs the real cleanJoin and the real securejoin.SecureJoinVFS loop; the only
// cut is os.Lstat (class S): no path component exists (a fresh destination
// directory). Pre-planted symlinks in the destination are outside this claim.

import (
	"io/fs"
	"os"
	"path"
	"strings"
	"syscall"
)

//verif:stub os.Lstat -> stubLstat

func stubLstat(name string) (fs.FileInfo, error) {
	return nil, &fs.PathError{Op: "lstat", Path: name, Err: syscall.ENOENT}
}

var _ = os.Lstat

func H16CleanJoin() {
	n := ndIntRange("n", 0, vBound("destlen", 6))
	dest := ndStringIn("dest", n, "ab./\\:")
	const root = "/verif-no-such-root/p"
	got, err := cleanJoin(root, dest)
	if err != nil {
		return
	}
	vAssert("cleanjoin/inside-root", got == root || strings.HasPrefix(got, root+"/"))
	vAssert("cleanjoin/clean", got == path.Clean(got))
	for _, seg := range strings.Split(got, "/") {
		vAssert("cleanjoin/no-dotdot", seg != "..")
	}
	vAssert("cleanjoin/no-backslash-no-colon", !strings.Contains(got, "\\") && !strings.Contains(got, ":"))
	vObservef("%q -> %q", dest, got)
}
