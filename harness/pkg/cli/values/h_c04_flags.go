package values

// C04 — precedence between the value flag families: --set-literal > --set-file >
// --set-string > --set > --set-json > later -f file > earlier -f file; tables
// merge key by key. Runs the real Options.MergeValues, loader.LoadValues /
// MergeMaps and the strvals parsers. readFile is cut (class S) to an in-memory
// file table; natively the files are written to a temporary directory.

import (
	"os"
	"path/filepath"

	"helm.sh/helm/v4/pkg/getter"
)

//verif:stub helm.sh/helm/v4/pkg/cli/values.readFile -> stubReadFile

var stubFiles = map[string]string{}

func stubReadFile(filePath string, p getter.Providers) ([]byte, error) {
	if c, ok := stubFiles[filePath]; ok {
		return []byte(c), nil
	}
	return nil, os.ErrNotExist
}

// every source sets, by its mode: nothing / k / n.a / k and n.b
func H04Flags() {
	dir := "/verif-files"
	if ndNative() {
		d, err := os.MkdirTemp("", "verif-values")
		if err != nil {
			panic(err)
		}
		defer os.RemoveAll(d)
		dir = d
	}
	stubFiles = map[string]string{}
	put := func(name, content string) string {
		p := filepath.Join(dir, name)
		stubFiles[p] = content
		if ndNative() {
			os.WriteFile(p, []byte(content), 0o644)
		}
		return p
	}
	opts := &Options{}
	// precedence rank, lowest first
	names := []string{"f1", "f2", "jk", "jo", "set", "str", "file", "lit"}
	var kBy, naBy, nbBy string // the highest-precedence source seen so far
	nsrc := vBound("sources", len(names))
	for idx, s := range names {
		if idx >= nsrc {
			break
		}
		mode := ndChoice("mode."+s, vBound("modes", 4))
		if mode == 0 {
			continue
		}
		setsK, setsNA, setsNB := mode == 1 || mode == 3, mode == 2, mode == 3
		switch s {
		case "f1", "f2":
			y := ""
			if setsK {
				y += "k: " + s + "\n"
			}
			if setsNA {
				y += "m:\n  a: " + s + "\n"
			}
			if setsNB {
				y += "m:\n  b: " + s + "\n"
			}
			opts.ValueFiles = append(opts.ValueFiles, put(s+".yaml", y))
		case "jk":
			if setsK {
				opts.JSONValues = append(opts.JSONValues, `k="jk"`)
			}
			if setsNA {
				opts.JSONValues = append(opts.JSONValues, `m.a="jk"`)
			}
			if setsNB {
				opts.JSONValues = append(opts.JSONValues, `m.b="jk"`)
			}
		case "jo":
			j := ""
			if setsK {
				j = `"k":"jo"`
			}
			if setsNA {
				j = `"m":{"a":"jo"}`
			}
			if setsNB {
				j += `,"m":{"b":"jo"}`
			}
			opts.JSONValues = append(opts.JSONValues, "{"+j+"}")
		case "set", "str", "lit":
			var dst *[]string
			switch s {
			case "set":
				dst = &opts.Values
			case "str":
				dst = &opts.StringValues
			default:
				dst = &opts.LiteralValues
			}
			if setsK {
				*dst = append(*dst, "k="+s)
			}
			if setsNA {
				*dst = append(*dst, "m.a="+s)
			}
			if setsNB {
				*dst = append(*dst, "m.b="+s)
			}
		case "file":
			p := put("content.txt", "file")
			if setsK {
				opts.FileValues = append(opts.FileValues, "k="+p)
			}
			if setsNA {
				opts.FileValues = append(opts.FileValues, "m.a="+p)
			}
			if setsNB {
				opts.FileValues = append(opts.FileValues, "m.b="+p)
			}
		}
		if setsK {
			kBy = s
		}
		if setsNA {
			naBy = s
		}
		if setsNB {
			nbBy = s
		}
	}
	got, err := opts.MergeValues(nil)
	vAssert("flags/noerr", err == nil)
	check := func(site string, v interface{}, present bool, by string) {
		if by == "" {
			vAssert(site+"/absent", !present)
			return
		}
		vAssert(site+"/highest-precedence-source", present && v == by)
	}
	kv, kp := got["k"]
	check("flags/k", kv, kp, kBy)
	n, _ := got["m"].(map[string]interface{})
	av, ap := n["a"]
	bv, bp := n["b"]
	check("flags/m.a", av, ap, naBy)
	check("flags/m.b", bv, bp, nbBy)
	vObservef("k=%s n.a=%s n.b=%s", kBy, naBy, nbBy)
}
