package rules

// C14 (lint) — `helm lint` reports an error naming the chart when the final
// values of the chart or of an enabled subchart violate that chart's schema, and
// no schema error when all schemas are satisfied (or validation is explicitly
// skipped). Runs the real TemplatesWithSkipSchemaValidation → ProcessDependencies
// → CoalesceValues → ToRenderValuesWithSchemaValidation → ValidateAgainstSchema.
// Cuts (class S): loader.Load → the harness' chart tree (natively the chart is
// written to a temp directory with SaveDir and loaded for real); os.Stat (the
// templates/ directory exists); Engine.Render → nothing rendered;
// ValidateAgainstSingleSchema → evaluator of the one schema shape used (natively
// the real jsonschema evaluator).

import (
	"fmt"
	"io/fs"
	"os"
	"strings"
	"time"

	chart "helm.sh/helm/v4/pkg/chart/v2"
	"helm.sh/helm/v4/pkg/chart/v2/loader"
	chartutil "helm.sh/helm/v4/pkg/chart/v2/util"
	"helm.sh/helm/v4/pkg/engine"
	"helm.sh/helm/v4/pkg/lint/support"
)

//verif:stub helm.sh/helm/v4/pkg/chart/v2/loader.Load -> lnLoad
//verif:stub os.Stat -> lnStat
//verif:stub (helm.sh/helm/v4/pkg/engine.Engine).Render -> lnRender
//verif:stub helm.sh/helm/v4/pkg/chart/v2/util.ValidateAgainstSingleSchema -> lnValidateSingle

type lnDirInfo struct{}

func (lnDirInfo) Name() string       { return "templates" }
func (lnDirInfo) Size() int64        { return 0 }
func (lnDirInfo) Mode() fs.FileMode  { return fs.ModeDir | 0o755 }
func (lnDirInfo) ModTime() time.Time { return time.Time{} }
func (lnDirInfo) IsDir() bool        { return true }
func (lnDirInfo) Sys() any           { return nil }

var lnChart *chart.Chart

func lnLoad(name string) (*chart.Chart, error)  { return lnChart, nil }
func lnStat(name string) (fs.FileInfo, error) { return lnDirInfo{}, nil }
func lnRender(e engine.Engine, chrt *chart.Chart, values chartutil.Values) (map[string]string, error) {
	return map[string]string{}, nil
}
func lnValidateSingle(values chartutil.Values, schemaJSON []byte) error {
	if ok, _ := values["ok"].(bool); ok {
		return nil
	}
	return fmt.Errorf("- at '/ok': value must be true\n")
}

var _ = loader.Load

func lnSchema(name string) []byte {
	return []byte(`{"$comment":"` + name + `","type":"object","required":["ok"],"properties":{"ok":{"const":true}}}`)
}

func lnSub(name string) *chart.Chart {
	c := &chart.Chart{Metadata: &chart.Metadata{Name: name, Version: "0.1.0", APIVersion: chart.APIVersionV2}}
	c.Templates = []*chart.File{{Name: "templates/" + name + ".yaml", Data: []byte("apiVersion: v1\nkind: ConfigMap\nmetadata:\n  name: " + name + "\n")}}
	return c
}

func H14Lint() {
	parent := lnSub("c")
	s1, s2 := lnSub("s1"), lnSub("s2")
	names := []string{"c", "s1", "s2"}
	hasSchema := map[string]bool{"c": ndBool("schema.parent"), "s1": ndBool("schema.s1"), "s2": ndBool("schema.s2")}
	valid := map[string]bool{"c": ndBool("valid.parent"), "s1": ndBool("valid.s1"), "s2": ndBool("valid.s2")}
	enabled := map[string]bool{"c": true, "s1": true, "s2": ndBool("s2.enabled")}
	parent.Metadata.Dependencies = []*chart.Dependency{{Name: "s1", Version: "0.1.0"}, {Name: "s2", Version: "0.1.0", Condition: "s2.enabled"}}
	parent.SetDependencies(s1, s2)
	for n, c := range map[string]*chart.Chart{"c": parent, "s1": s1, "s2": s2} {
		if hasSchema[n] {
			c.Schema = lnSchema(n)
		}
	}
	// the values arrive as lint overrides (--set / -f); the chart's own values.yaml is empty
	vals := map[string]interface{}{"ok": valid["c"], "s1": map[string]interface{}{"ok": valid["s1"]},
		"s2": map[string]interface{}{"ok": valid["s2"], "enabled": enabled["s2"]}}
	skip := ndBool("skipSchemaValidation")
	dir := "/lint/c"
	if ndNative() {
		d, err := os.MkdirTemp("", "verif-lint")
		if err != nil {
			vrDiverged("no temp dir")
		}
		defer os.RemoveAll(d)
		if err := chartutil.SaveDir(parent, d); err != nil {
			vrDiverged("cannot write chart")
		}
		dir = d + "/c"
	} else {
		lnChart = parent
	}
	linter := &support.Linter{ChartDir: dir}
	TemplatesWithSkipSchemaValidation(linter, vals, "default", nil, skip)
	var violators []string
	for _, n := range names {
		if enabled[n] && hasSchema[n] && !valid[n] {
			violators = append(violators, n)
		}
	}
	schemaErr := ""
	for _, m := range linter.Messages {
		if m.Severity == support.ErrorSev && strings.Contains(m.Err.Error(), "values don't meet the specifications of the schema") {
			schemaErr = m.Err.Error()
		}
	}
	vTag(fmt.Sprintf("violators=%v skip=%v", violators, skip))
	vAssert("lint/schema-error-iff-an-enabled-chart-violates-its-schema", (schemaErr != "") == (!skip && len(violators) > 0))
	if schemaErr != "" {
		for _, n := range violators {
			vAssert("lint/error-names-the-chart", strings.Contains(schemaErr, n+":\n"))
		}
	}
	vObservef("violators=%v skip=%v err=%v", violators, skip, schemaErr != "")
}
