package engine

// C05 (hermeticity clause) — what chart content can reach from a template: the
// function table the engine installs on every template has no env / expandenv;
// getHostByName answers "" for every host name unless DNS was explicitly enabled;
// lookup without a cluster connection (client-only rendering, lint) answers an
// empty map; and .Files hands out nothing but the chart's own files, whatever
// name is asked for. Runs the real Engine.initFunMap / funcMap (sprig's table is
// built by the real code) and the real files.Get / GetBytes / Lines.
// Cut (class S): (*text/template.Template).Funcs — its reflection-based
// validation cannot be interpreted — captures the table instead. The native
// replay renders real templates that call the same functions.

import (
	"fmt"
	"net"
	"strings"
	"text/template"

	"k8s.io/client-go/dynamic"

	chart "helm.sh/helm/v4/pkg/chart/v2"
	chartutil "helm.sh/helm/v4/pkg/chart/v2/util"
)

//verif:stub (*text/template.Template).Funcs -> h05Funcs
//verif:stub net.LookupHost -> h05LookupHost

// a resolver that answers: any call is a DNS lookup made on behalf of chart content
var h05Lookups int

func h05LookupHost(host string) ([]string, error) {
	h05Lookups++
	return []string{"203.0.113.7"}, nil
}

var _ = net.LookupHost

var h05Table template.FuncMap

func h05Funcs(t *template.Template, m template.FuncMap) *template.Template {
	h05Table = m
	return t
}

// h05NoCluster: a client provider whose cluster cannot be reached
type h05NoCluster struct{}

func (h05NoCluster) GetClientFor(apiVersion, kind string) (dynamic.NamespaceableResourceInterface, bool, error) {
	return nil, false, fmt.Errorf("no cluster in this harness")
}

func h05Render(e Engine, tpl string) (string, error) {
	c := &chart.Chart{Metadata: &chart.Metadata{Name: "c", Version: "0.1.0", APIVersion: chart.APIVersionV2},
		Templates: []*chart.File{{Name: "templates/t.yaml", Data: []byte(tpl)}}}
	out, err := e.Render(c, chartutil.Values{"Values": map[string]interface{}{}})
	return out["c/templates/t.yaml"], err
}

func H05Hermetic() {
	e := Engine{}
	e.Strict, e.LintMode, e.EnableDNS = ndBool("strict"), ndBool("lint"), ndBool("enableDNS")
	// with or without a cluster connection (install/upgrade build the engine with one)
	hasClient := ndBool("clusterConnection")
	if hasClient {
		var cp ClientProvider = h05NoCluster{}
		e.clientProvider = &cp
	}
	host := ndStringIn("host", ndIntRange("host.len", 0, 3), "a.1")
	hasEnv, hasExpand, dns, lookupEmpty := false, false, "", false
	if !ndNative() {
		h05Table, h05Lookups = nil, 0
		e.initFunMap(template.New("gotpl"))
		_, hasEnv = h05Table["env"]
		_, hasExpand = h05Table["expandenv"]
		if !e.EnableDNS {
			dns = h05Table["getHostByName"].(func(string) string)(host)
		}
		if hasClient && !e.LintMode {
			lookupEmpty = true // the cluster-backed lookup is in place; what it reads is the cluster's business
		} else {
			m, err := h05Table["lookup"].(func(string, string, string, string) (map[string]interface{}, error))("v1", "Secret", "kube-system", host)
			lookupEmpty = err == nil && len(m) == 0
		}
	} else {
		_, err := h05Render(e, `{{ env "HOME" }}`)
		hasEnv = err == nil || !strings.Contains(err.Error(), `function "env" not defined`)
		_, err = h05Render(e, `{{ expandenv "$HOME" }}`)
		hasExpand = err == nil || !strings.Contains(err.Error(), `function "expandenv" not defined`)
		if !e.EnableDNS {
			out, err := h05Render(e, fmt.Sprintf(`[{{ getHostByName %q }}]`, host))
			if err != nil {
				dns = "error: " + err.Error()
			} else {
				dns = strings.TrimSuffix(strings.TrimPrefix(out, "["), "]")
			}
		}
		if hasClient && !e.LintMode {
			lookupEmpty = true
		} else {
			out, err := h05Render(e, fmt.Sprintf(`{{ len (lookup "v1" "Secret" "kube-system" %q) }}`, host))
			lookupEmpty = err == nil && out == "0"
		}
	}
	vAssert("hermetic/no-env-function", !hasEnv)
	vAssert("hermetic/no-expandenv-function", !hasExpand)
	if !e.EnableDNS {
		vAssert("hermetic/no-dns-unless-enabled", dns == "" && h05Lookups == 0)
	}
	vAssert("hermetic/lookup-without-cluster-is-empty", lookupEmpty)
	vObservef("env=%v expandenv=%v dns=%q lookupEmpty=%v", hasEnv, hasExpand, dns, lookupEmpty)
}

// H05Files: .Files answers only for the chart's own file names.
func H05Files() {
	own := []*chart.File{{Name: "c/a", Data: []byte("A")}, {Name: "b", Data: []byte("B")}}
	f := newFiles(own)
	name := ndStringIn("name", ndIntRange("name.len", 0, vBound("fnamelen", 4)), "ab./cetc")
	got := f.Get(name)
	gotBytes := f.GetBytes(name)
	switch name {
	case "c/a":
		vAssert("files/own-file-content", got == "A" && string(gotBytes) == "A")
	case "b":
		vAssert("files/own-file-content", got == "B" && string(gotBytes) == "B")
	default:
		vAssert("files/nothing-but-the-charts-own-files", got == "" && len(gotBytes) == 0)
	}
	vAssert("files/lines-of-foreign-name-empty-or-own", name == "b" || name == "c/a" || len(f.Lines(name)) == 0 || (len(f.Lines(name)) == 1 && f.Lines(name)[0] == ""))
	vObservef("%q -> %q", name, got)
}

// H05Glob: .Files.Glob / AsConfig / AsSecrets answer from the asking chart's own
// files only, whatever pattern is asked and whatever another chart (or an earlier
// render) asked before with the same pattern. Two file sets share one name with
// different content; the same symbolic pattern is globbed on the first, then on
// the second, then on the first again. Runs the real files.Glob (gobwas/glob
// compile + match) and AsConfig. A memo table kept in a sync.Map is interpreted
// through the engine's sync.Map model (association list, class S).
func H05Glob() {
	one := newFiles([]*chart.File{{Name: "a", Data: []byte("1")}, {Name: "d/b", Data: []byte("2")}})
	two := newFiles([]*chart.File{{Name: "a", Data: []byte("X")}, {Name: "c", Data: []byte("3")}})
	pat := ndStringIn("pat", ndIntRange("pat.len", 0, vBound("globlen", 2)), "ab*/d")
	r1 := one.Glob(pat)
	r2 := two.Glob(pat)
	r1b := one.Glob(pat)
	for name, data := range r1 {
		own, ok := one[name]
		vAssert("glob/result-is-the-asking-charts-own-file", ok && string(own) == string(data))
	}
	for name, data := range r2 {
		own, ok := two[name]
		vAssert("glob/result-is-the-asking-charts-own-file", ok && string(own) == string(data))
	}
	vAssert("glob/repeatable", len(r1) == len(r1b))
	for name, data := range r1b {
		vAssert("glob/repeatable", string(r1[name]) == string(data))
	}
	// reference answers for the patterns whose meaning is fixed by the documentation
	switch pat {
	case "a":
		vAssert("glob/literal-name", len(r1) == 1 && len(r2) == 1 && string(r2["a"]) == "X")
	case "*":
		vAssert("glob/star-stops-at-separator", len(r1) == 1 && len(r2) == 2 && string(r2["c"]) == "3")
	case "**":
		vAssert("glob/doublestar-all", len(r1) == 2 && len(r2) == 2)
	case "d/*":
		vAssert("glob/dir-star", len(r1) == 1 && len(r2) == 0 && string(r1["d/b"]) == "2")
	}
	cfg2 := r2.AsConfig()
	vAssert("glob/asconfig-own-content-only", !strings.Contains(cfg2, "1") && !strings.Contains(cfg2, "2"))
	vObservef("%q -> %d %d %q", pat, len(r1), len(r2), cfg2)
}
