package engine

// C05 (determinism of the engine's own loops) — Engine.Render parses and executes
// the files of a chart tree in an order that does not depend on Go's map
// iteration order: two renders of the same chart, each under its own symbolic
// map orders, parse in the same sequence, execute in the same sequence and
// return the same output. Runs the real Render / allTemplates / recAllTpls /
// render / sortTemplates / byPathLen. Cut (class S): text/template itself —
// (*Template).New / Parse / Option / Funcs / ExecuteTemplate — to a recorder:
// executing a file appends its name to a trace and emits the trace so far,
// which is what a chart whose files touch shared state (set .Values …) makes
// observable. Natively exactly such templates are rendered by the real engine.

import (
	"fmt"
	"io"
	"strings"
	"text/template"
	"text/template/parse"

	chart "helm.sh/helm/v4/pkg/chart/v2"
	chartutil "helm.sh/helm/v4/pkg/chart/v2/util"
)

//verif:stub (*text/template.Template).Funcs -> roFuncs
//verif:stub (*text/template.Template).Option -> roOption
//verif:stub (*text/template.Template).New -> roNew
//verif:stub (*text/template.Template).Parse -> roParse
//verif:stub (*text/template.Template).ExecuteTemplate -> roExecuteTemplate

var (
	roParsed   []string
	roExecuted []string
	roNames    = map[*template.Template]string{}
)

var _ parse.Tree

func roFuncs(t *template.Template, m template.FuncMap) *template.Template { return t }
func roOption(t *template.Template, opt ...string) *template.Template    { return t }
func roNew(t *template.Template, name string) *template.Template {
	nt := &template.Template{}
	roNames[nt] = name
	return nt
}
func roParse(t *template.Template, text string) (*template.Template, error) {
	roParsed = append(roParsed, roNames[t])
	return t, nil
}
func roExecuteTemplate(t *template.Template, wr io.Writer, name string, data any) error {
	roExecuted = append(roExecuted, name)
	io.WriteString(wr, strings.Join(roExecuted, ">"))
	return nil
}

func roTemplate(name string) []byte {
	// appends its own name to a trace kept in the (shared) values and prints the trace
	return []byte(fmt.Sprintf(`{{ $_ := set .Values "trace" (printf "%%s>%s" (default "" .Values.trace)) }}{{ .Values.trace }}`, name))
}

func roChart() *chart.Chart {
	mk := func(name string, files ...string) *chart.Chart {
		c := &chart.Chart{Metadata: &chart.Metadata{Name: name, Version: "0.1.0", APIVersion: chart.APIVersionV2}}
		for _, f := range files {
			c.Templates = append(c.Templates, &chart.File{Name: f, Data: roTemplate(name + "/" + f)})
		}
		return c
	}
	root := mk("root", "templates/b.yaml", "templates/a.yaml", "templates/deep/c.yaml", "templates/_helpers.tpl")
	s1 := mk("s1", "templates/d.yaml", "templates/e.yaml")
	s2 := mk("s2", "templates/f.yaml")
	if ndBool("nested") {
		s1.AddDependency(s2)
		root.AddDependency(s1)
	} else {
		root.AddDependency(s1, s2)
	}
	return root
}

func roRenderOnce(c *chart.Chart) (map[string]string, []string, []string, error) {
	roParsed, roExecuted = nil, nil
	vals := chartutil.Values{"Values": map[string]interface{}{"s1": map[string]interface{}{"s2": map[string]interface{}{}}, "s2": map[string]interface{}{}},
		"Release": map[string]interface{}{"Name": "r"}, "Chart": map[string]interface{}{}}
	out, err := Engine{}.Render(c, vals)
	return out, roParsed, roExecuted, err
}

func H05RenderOrder() {
	c := roChart()
	ndMapOrder(true)
	out1, p1, e1, err1 := roRenderOnce(c)
	out2, p2, e2, err2 := roRenderOnce(c)
	ndMapOrder(false)
	vAssert("renderorder/renders", err1 == nil && err2 == nil && len(out1) > 0)
	// (parse and execution sequences are visible in the output: every file prints the trace so far)
	_, _, _, _ = p1, p2, e1, e2
	same := len(out1) == len(out2)
	for k, v := range out1 {
		if out2[k] != v {
			same = false
		}
	}
	vAssert("renderorder/byte-identical-output", same)
	vObservef("files=%d", len(out1))
}
