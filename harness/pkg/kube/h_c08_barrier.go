package kube

// C08 (last clause) — "when resources are created, all resources of one kind
// finish before creation of the next kind starts". Runs the real Client.Create /
// Client.Delete → perform → batchPerform (goroutine per object, WaitGroup barrier
// at every change of kind) under the engine's scheduler: every request parks at a
// schedule point between its start and its end, so the solver chooses which of
// the in-flight requests finishes first and whether the spawning loop runs ahead.
// The leaves createResource/deleteResource are the class-S stubs of
// h_c02_update.go; natively the real leaves run against the fake REST transport
// and a request sleeps between start and end.

import (
	"fmt"
	"sync"
	"time"

	metav1 "k8s.io/apimachinery/pkg/apis/meta/v1"
)

type c08Event struct {
	name  string
	phase string
}

func H08Barrier() {
	c02Cluster, c02Log = map[c02Key]*c02Obj{}, nil
	var mu sync.Mutex
	var events []c08Event
	c02Hook = func(name, phase string) {
		mu.Lock()
		events = append(events, c08Event{name, phase})
		mu.Unlock()
		if phase == "start" {
			if ndNative() {
				time.Sleep(3 * time.Millisecond)
			} else {
				ndYield()
			}
		}
	}
	defer func() { c02Hook = nil }()

	n := ndIntRange("objects", 2, vBound("objects", 3))
	del := ndBool("delete")
	var list ResourceList
	batch := make([]int, n)
	kinds := make([]string, n)
	for i := 0; i < n; i++ {
		kinds[i] = c02Kinds[ndChoice("kind", 2)]
		if i > 0 {
			batch[i] = batch[i-1]
			if kinds[i] != kinds[i-1] {
				batch[i]++
			}
		}
		k := c02Key{kinds[i], "default", fmt.Sprintf("r%d", i)}
		if del {
			c02Cluster[k] = &c02Obj{TypeMeta: metav1.TypeMeta{Kind: k.kind, APIVersion: "v1"}, ObjectMeta: metav1.ObjectMeta{Name: k.name, Namespace: k.ns}}
		}
		list = append(list, c02Info(k, "x"))
	}
	c := &Client{}
	if del {
		res, errs := c.Delete(list)
		vAssert("barrier/delete-accepted", len(errs) == 0 && res != nil && len(res.Deleted) == n)
	} else {
		res, err := c.Create(list)
		vAssert("barrier/create-accepted", err == nil && res != nil && len(res.Created) == n)
	}
	mu.Lock()
	defer mu.Unlock()
	pos := func(name, phase string) int {
		at, cnt := -1, 0
		for p, e := range events {
			if e.name == name && e.phase == phase {
				at = p
				cnt++
			}
		}
		if cnt != 1 {
			return -1
		}
		return at
	}
	for i := 0; i < n; i++ {
		si, ei := pos(fmt.Sprintf("r%d", i), "start"), pos(fmt.Sprintf("r%d", i), "end")
		vAssert("barrier/each-object-requested-exactly-once", si >= 0 && ei > si)
		for j := 0; j < n; j++ {
			if batch[j] < batch[i] {
				ej := pos(fmt.Sprintf("r%d", j), "end")
				vAssert("barrier/earlier-kind-finished-before-next-kind-starts", ej >= 0 && ej < si)
			}
		}
	}
	vObservef("n=%d delete=%v events=%d", n, del, len(events))
}
