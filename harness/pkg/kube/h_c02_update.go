package kube

// C02 (set-level clauses) — after Client.Update accepted by the cluster, every
// object of the target manifest exists, every object that was in the original
// manifest but not in the target has been deleted unless its LIVE copy carries
// exactly the keep policy, nothing else is touched, and the Result lists what
// was really created / updated / deleted. Runs the real (*Client).update (both
// merge modes), ResourceList.{Visit,Get,Contains,Difference,Filter},
// isMatchingInfo, and for deletion the real rdelete / perform / batchPerform
// (goroutines + WaitGroup). Cuts (class S): helm's own leaves createResource,
// updateResource, deleteResource and resource.Helper.Get / resource.Info.Get,
// replaced by operations on a model cluster — field-level patch content
// (createPatch, three-way merge) is outside the claim. Natively the real leaves
// run against a fake REST transport that serves the same model cluster.

import (
	"bytes"
	"encoding/json"
	"io"
	"net/http"
	"strings"

	apierrors "k8s.io/apimachinery/pkg/api/errors"
	"k8s.io/apimachinery/pkg/api/meta"
	metav1 "k8s.io/apimachinery/pkg/apis/meta/v1"
	"k8s.io/apimachinery/pkg/runtime"
	"k8s.io/apimachinery/pkg/runtime/schema"
	"k8s.io/cli-runtime/pkg/resource"
	"k8s.io/client-go/kubernetes/scheme"
	restfake "k8s.io/client-go/rest/fake"
)

//verif:stub (*k8s.io/cli-runtime/pkg/resource.Helper).Get -> c02HelperGet
//verif:stub (*k8s.io/cli-runtime/pkg/resource.Info).Get -> c02InfoGet
//verif:stub helm.sh/helm/v4/pkg/kube.createResource -> c02Create
//verif:stub helm.sh/helm/v4/pkg/kube.updateResource -> c02Update
//verif:stub helm.sh/helm/v4/pkg/kube.deleteResource -> c02Delete

type c02Key struct{ kind, ns, name string }

type c02Obj struct {
	metav1.TypeMeta   `json:",inline"`
	metav1.ObjectMeta `json:"metadata,omitempty"`
}

func (o *c02Obj) DeepCopyObject() runtime.Object {
	c := *o
	c.Annotations = map[string]string{}
	for k, v := range o.Annotations {
		c.Annotations[k] = v
	}
	c.Labels = map[string]string{}
	for k, v := range o.Labels {
		c.Labels[k] = v
	}
	return &c
}

var (
	c02Cluster map[c02Key]*c02Obj
	c02Log     []string
	// c02Hook, when set, is told when a create/delete request for the named object
	// starts and ends (C08 barrier harness); natively the fake REST handler calls it
	c02Hook func(name, phase string)
)

func c02Plural(kind string) string { return strings.ToLower(kind) + "s" }

func c02KeyOf(info *resource.Info) c02Key {
	return c02Key{info.Mapping.GroupVersionKind.Kind, info.Namespace, info.Name}
}

func c02HelperGet(h *resource.Helper, namespace, name string) (runtime.Object, error) {
	for k, o := range c02Cluster {
		if k.ns == namespace && k.name == name && c02Plural(k.kind) == h.Resource {
			return o.DeepCopyObject(), nil
		}
	}
	return nil, apierrors.NewNotFound(schema.GroupResource{Resource: h.Resource}, name)
}

func c02InfoGet(i *resource.Info) error {
	o, ok := c02Cluster[c02KeyOf(i)]
	if !ok {
		return apierrors.NewNotFound(schema.GroupResource{Resource: c02Plural(c02KeyOf(i).kind)}, i.Name)
	}
	i.Object = o.DeepCopyObject()
	return nil
}

func c02Create(info *resource.Info) error {
	k := c02KeyOf(info)
	if _, ok := c02Cluster[k]; ok {
		return apierrors.NewAlreadyExists(schema.GroupResource{Resource: c02Plural(k.kind)}, info.Name)
	}
	if c02Hook != nil && !ndNative() {
		c02Hook(k.name, "start")
		defer c02Hook(k.name, "end")
	}
	c02Cluster[k] = info.Object.(*c02Obj).DeepCopyObject().(*c02Obj)
	c02Log = append(c02Log, "create "+k.kind+"/"+k.ns+"/"+k.name)
	return nil
}

func c02Update(_ *Client, target *resource.Info, currentObj runtime.Object, force, threeWay bool) error {
	k := c02KeyOf(target)
	live, ok := c02Cluster[k]
	if !ok {
		return apierrors.NewNotFound(schema.GroupResource{Resource: c02Plural(k.kind)}, target.Name)
	}
	live.Labels = map[string]string{"v": target.Object.(*c02Obj).Labels["v"]}
	c02Log = append(c02Log, "update "+k.kind+"/"+k.ns+"/"+k.name)
	return nil
}

func c02Delete(info *resource.Info, policy metav1.DeletionPropagation) error {
	k := c02KeyOf(info)
	if _, ok := c02Cluster[k]; !ok {
		return apierrors.NewNotFound(schema.GroupResource{Resource: c02Plural(k.kind)}, info.Name)
	}
	if c02Hook != nil && !ndNative() {
		c02Hook(k.name, "start")
		defer c02Hook(k.name, "end")
	}
	delete(c02Cluster, k)
	c02Log = append(c02Log, "delete "+k.kind+"/"+k.ns+"/"+k.name)
	return nil
}

func c02Info(k c02Key, data string) *resource.Info {
	obj := &c02Obj{TypeMeta: metav1.TypeMeta{Kind: k.kind, APIVersion: "v1"}, ObjectMeta: metav1.ObjectMeta{Name: k.name, Namespace: k.ns, Labels: map[string]string{"v": data}}}
	info := &resource.Info{Name: k.name, Namespace: k.ns, Object: obj,
		Mapping: &meta.RESTMapping{GroupVersionKind: schema.GroupVersionKind{Version: "v1", Kind: k.kind},
			Resource: schema.GroupVersionResource{Version: "v1", Resource: c02Plural(k.kind)}, Scope: meta.RESTScopeNamespace}}
	if ndNative() {
		info.Client = c02REST()
	}
	return info
}

// c02REST: native replay only — the model cluster behind a fake REST transport.
func c02REST() resource.RESTClient {
	return &restfake.RESTClient{
		GroupVersion:         schema.GroupVersion{Version: "v1"},
		NegotiatedSerializer: scheme.Codecs.WithoutConversion(),
		Client: restfake.CreateHTTPClient(func(req *http.Request) (*http.Response, error) {
			header := http.Header{}
			header.Set("Content-Type", runtime.ContentTypeJSON)
			reply := func(code int, v interface{}) (*http.Response, error) {
				b, _ := json.Marshal(v)
				return &http.Response{StatusCode: code, Header: header, Body: io.NopCloser(bytes.NewReader(b))}, nil
			}
			notFound := map[string]interface{}{"kind": "Status", "apiVersion": "v1", "status": "Failure", "reason": "NotFound", "code": 404}
			parts := strings.Split(strings.Trim(req.URL.Path, "/"), "/")
			// namespaces/<ns>/<resource>[/<name>]
			if len(parts) < 3 || parts[0] != "namespaces" {
				return reply(404, notFound)
			}
			ns, res := parts[1], parts[2]
			find := func(name string) (c02Key, *c02Obj) {
				for k, o := range c02Cluster {
					if k.ns == ns && k.name == name && c02Plural(k.kind) == res {
						return k, o
					}
				}
				return c02Key{}, nil
			}
			switch req.Method {
			case http.MethodGet:
				if _, o := find(parts[3]); o != nil {
					return reply(200, o)
				}
				return reply(404, notFound)
			case http.MethodPost:
				body, _ := io.ReadAll(req.Body)
				var o c02Obj
				json.Unmarshal(body, &o)
				if c02Hook != nil {
					c02Hook(o.Name, "start")
					defer c02Hook(o.Name, "end")
				}
				k := c02Key{o.Kind, ns, o.Name}
				if _, exists := c02Cluster[k]; exists {
					return reply(409, map[string]interface{}{"kind": "Status", "apiVersion": "v1", "status": "Failure", "reason": "AlreadyExists", "code": 409})
				}
				o.Namespace = ns
				c02Cluster[k] = &o
				c02Log = append(c02Log, "create "+k.kind+"/"+k.ns+"/"+k.name)
				return reply(201, &o)
			case http.MethodPatch, http.MethodPut:
				k, o := find(parts[3])
				if o == nil {
					return reply(404, notFound)
				}
				c02Log = append(c02Log, "update "+k.kind+"/"+k.ns+"/"+k.name)
				return reply(200, o)
			case http.MethodDelete:
				if c02Hook != nil {
					c02Hook(parts[3], "start")
					defer c02Hook(parts[3], "end")
				}
				k, o := find(parts[3])
				if o == nil {
					return reply(404, notFound)
				}
				delete(c02Cluster, k)
				c02Log = append(c02Log, "delete "+k.kind+"/"+k.ns+"/"+k.name)
				return reply(200, map[string]interface{}{"kind": "Status", "apiVersion": "v1", "status": "Success"})
			}
			return reply(404, notFound)
		}),
	}
}

var c02Kinds = []string{"ConfigMap", "ServiceAccount"}
var c02Names = []string{"a", "b"}
var c02Spaces = []string{"default", "other"}

func H02Update() {
	c02Cluster, c02Log = map[c02Key]*c02Obj{}, nil
	n := ndIntRange("objects", 1, vBound("objects", 3))
	type slot struct {
		k                     c02Key
		inOrig, inTarget, live bool
		policy                string
	}
	slots := make([]slot, n)
	var original, target ResourceList
	for i := range slots {
		s := &slots[i]
		s.k = c02Key{c02Kinds[ndChoice("kind", 2)], c02Spaces[ndChoice("ns", vBound("spaces", 2))], c02Names[ndChoice("name", 2)]}
		for j := 0; j < i; j++ {
			vAssume(slots[j].k != s.k) // distinct identities (kind, namespace, name)
		}
		s.inOrig, s.inTarget, s.live = ndBool("inOriginal"), ndBool("inTarget"), ndBool("live")
		// what a correct caller guarantees: objects of the original manifest normally exist
		// (they may have been deleted out of band); a target object that already exists is
		// listed in original (install/upgrade add adopted objects to it)
		vAssume(!(s.inTarget && s.live && !s.inOrig))
		if s.live {
			o := &c02Obj{TypeMeta: metav1.TypeMeta{Kind: s.k.kind, APIVersion: "v1"}, ObjectMeta: metav1.ObjectMeta{Name: s.k.name, Namespace: s.k.ns, Labels: map[string]string{"v": "old"}}}
			if ndBool("hasPolicy") {
				s.policy = ndStringIn("policy", 4, "kepKEP ")
				o.Annotations = map[string]string{ResourcePolicyAnno: s.policy}
			}
			c02Cluster[s.k] = o
		}
		if s.inOrig {
			original = append(original, c02Info(s.k, "old"))
		}
		if s.inTarget {
			target = append(target, c02Info(s.k, "new"))
		}
	}
	bystander := c02Key{"ConfigMap", "default", "zz"}
	c02Cluster[bystander] = &c02Obj{TypeMeta: metav1.TypeMeta{Kind: "ConfigMap", APIVersion: "v1"}, ObjectMeta: metav1.ObjectMeta{Name: "zz", Namespace: "default", Labels: map[string]string{"v": "bystander"}}}

	c := &Client{}
	var res *Result
	var err error
	if ndBool("threeWayMerge") {
		res, err = c.UpdateThreeWayMerge(original, target, ndBool("force"))
	} else {
		res, err = c.Update(original, target, ndBool("force"))
	}
	vAssert("update/accepted", err == nil && res != nil)
	nCreated, nUpdated, nDeleted := 0, 0, 0
	for _, s := range slots {
		_, exists := c02Cluster[s.k]
		switch {
		case s.inTarget:
			vAssert("update/every-target-object-exists", exists)
			if s.live {
				nUpdated++
			} else {
				nCreated++
			}
		case s.inOrig && s.live:
			if s.policy == KeepPolicy {
				vAssert("update/kept-by-live-policy", exists)
			} else {
				vAssert("update/removed-object-deleted", !exists)
				nDeleted++
			}
		default:
			vAssert("update/objects-outside-both-manifests-untouched", exists == s.live)
		}
	}
	by, ok := c02Cluster[bystander]
	vAssert("update/bystander-untouched", ok && by.Labels["v"] == "bystander")
	vAssert("update/result-lists-what-happened", len(res.Created) == nCreated && len(res.Updated) == nUpdated && len(res.Deleted) == nDeleted)
	vObservef("created=%d updated=%d deleted=%d", nCreated, nUpdated, nDeleted)
}

// H02Delete: Client.Delete removes exactly the listed objects that exist, in
// batches by kind, and reports them.
func H02Delete() {
	c02Cluster, c02Log = map[c02Key]*c02Obj{}, nil
	n := ndIntRange("objects", 1, vBound("objects", 3))
	var list ResourceList
	var keys []c02Key
	live := map[c02Key]bool{}
	for i := 0; i < n; i++ {
		k := c02Key{c02Kinds[ndChoice("kind", 2)], c02Spaces[ndChoice("ns", vBound("spaces", 2))], c02Names[ndChoice("name", 2)]}
		for _, p := range keys {
			vAssume(p != k)
		}
		keys = append(keys, k)
		if ndBool("live") {
			live[k] = true
			c02Cluster[k] = &c02Obj{TypeMeta: metav1.TypeMeta{Kind: k.kind, APIVersion: "v1"}, ObjectMeta: metav1.ObjectMeta{Name: k.name, Namespace: k.ns}}
		}
		list = append(list, c02Info(k, "x"))
	}
	bystander := c02Key{"ServiceAccount", "other", "zz"}
	c02Cluster[bystander] = &c02Obj{TypeMeta: metav1.TypeMeta{Kind: "ServiceAccount", APIVersion: "v1"}, ObjectMeta: metav1.ObjectMeta{Name: "zz", Namespace: "other"}}
	c := &Client{}
	res, errs := c.Delete(list)
	vAssert("delete/no-errors", len(errs) == 0 && res != nil)
	for _, k := range keys {
		_, exists := c02Cluster[k]
		vAssert("delete/listed-objects-gone", !exists)
	}
	_, ok := c02Cluster[bystander]
	vAssert("delete/bystander-untouched", ok)
	vAssert("delete/result-lists-all", len(res.Deleted) == len(keys))
}
