package util

// C08 ("original order kept within a kind") for lists long enough to leave the
// insertion-sort regime of Go's sort package (n > 12): the real sortHooksByKind
// and sortManifestsByKind on 14 entries whose kinds are symbolic (two known
// kinds and one unknown one). After sorting, kinds are in the fixed order and
// entries of one kind are in their original order. A sort that is not stable is
// only visible from 13 entries on.

import (
	"fmt"

	release "helm.sh/helm/v4/pkg/release/v1"
)

var stableKinds = []string{"Secret", "Job", "Zeta"}

func H08Stable() {
	n := vBound("stablelen", 14)
	hooksMode := ndBool("hooks")
	kinds := make([]string, n)
	for i := range kinds {
		kinds[i] = stableKinds[ndChoice("kind", vBound("stablekinds", 2))]
	}
	var gotKinds []string
	var gotIdx []int
	if hooksMode {
		hs := make([]*release.Hook, n)
		for i := range hs {
			hs[i] = &release.Hook{Name: fmt.Sprintf("h%02d", i), Kind: kinds[i], Weight: i}
		}
		for _, h := range sortHooksByKind(hs, InstallOrder) {
			gotKinds, gotIdx = append(gotKinds, h.Kind), append(gotIdx, h.Weight)
		}
	} else {
		ms := make([]Manifest, n)
		for i := range ms {
			ms[i] = Manifest{Name: fmt.Sprintf("m%02d", i), Head: &SimpleHead{Kind: kinds[i]}}
		}
		for _, m := range sortManifestsByKind(ms, InstallOrder) {
			var i int
			fmt.Sscanf(m.Name, "m%02d", &i)
			gotKinds, gotIdx = append(gotKinds, m.Head.Kind), append(gotIdx, i)
		}
	}
	vAssert("stable/nothing-lost", len(gotKinds) == n)
	for i := 0; i+1 < len(gotKinds); i++ {
		ra, rb := kindRank(gotKinds[i], InstallOrder), kindRank(gotKinds[i+1], InstallOrder)
		vAssert("stable/kind-order", ra <= rb)
		if gotKinds[i] == gotKinds[i+1] {
			vAssert("stable/original-order-within-a-kind", gotIdx[i] < gotIdx[i+1])
		}
	}
}
