package util

// C08 — every rendered document lands in exactly one place, in kind order.
// Runs the real SortManifests, SplitManifests (separator regexp natively on
// concrete text), manifestFile.sort, hasAnyAnnotation, calculateHookWeight,
// operateAnnotationValues, sortManifestsByKind, sortHooksByKind, lessByKind.
// yaml.Unmarshal of a document head is cut (class S): each document's text
// starts with a concrete marker "# doc-N" and the stub hands back the head the
// harness built for N (kind / annotations / events / weight symbolic). The
// native replay writes real YAML for the concretised head instead.

import (
	"fmt"
	"strconv"
	"strings"

	release "helm.sh/helm/v4/pkg/release/v1"
	"sigs.k8s.io/yaml"
)

//verif:stub sigs.k8s.io/yaml.Unmarshal -> stubYAMLUnmarshal

type docSpec struct {
	id                int
	kind              string
	meta              int // 0 no metadata, 1 metadata without annotations, 2 empty annotations, 3 other annotation only, 4 hook annotation
	events            string
	weight            string
	policy            string
	unknown           bool // names an unknown event
	eventIx, policyIx int  // index into eventMenu / policyMenu when drawn from them (first document)
	text              string
	file              string
}

var docSpecs []*docSpec

func stubYAMLUnmarshal(data []byte, o interface{}, opts ...yaml.JSONOpt) error {
	s := stripLeadingSep(string(data))
	if !strings.HasPrefix(s, "# doc-") {
		return fmt.Errorf("stub: document without marker")
	}
	end := strings.IndexByte(s, '\n')
	if end < 0 {
		end = len(s)
	}
	id, err := strconv.Atoi(s[len("# doc-"):end])
	if err != nil {
		return err
	}
	d := docSpecs[id]
	h := o.(*SimpleHead)
	h.Version = "v1"
	h.Kind = d.kind
	if d.meta > 0 {
		h.Metadata = &struct {
			Name        string            `json:"name"`
			Annotations map[string]string `json:"annotations"`
		}{Name: fmt.Sprintf("n%d", id)}
		switch d.meta {
		case 2:
			h.Metadata.Annotations = map[string]string{}
		case 3:
			h.Metadata.Annotations = map[string]string{"other": "x"}
		case 4:
			h.Metadata.Annotations = map[string]string{release.HookAnnotation: d.events, release.HookWeightAnnotation: d.weight}
			if d.policy != "" {
				h.Metadata.Annotations[release.HookDeleteAnnotation] = d.policy
			}
		}
	}
	return nil
}

// a document may keep a leading "---" line when separators are doubled; YAML
// treats it as a document start marker
func stripLeadingSep(s string) string {
	for strings.HasPrefix(s, "---") {
		s = strings.TrimSpace(strings.TrimPrefix(s, "---"))
	}
	return s
}

var kindMenu = []string{"Namespace", "Secret", "Deployment", "Job", "Zeta", "Alpha", ""}
var eventMenu = []string{"post-install, Pre-Upgrade ", "bogus", "pre-install,bogus", "test", "", "bogus,pre-install"}
var eventUnknown = []bool{false, true, true, false, true, true}
var eventWant = [][]release.HookEvent{{release.HookPostInstall, release.HookPreUpgrade}, nil, nil, {release.HookTest}, nil, nil}
var policyMenu = []string{"", "before-hook-creation,hook-failed", "hook-succeeded , Hook-Failed, before-hook-creation"}
var policyWant = [][]release.HookDeletePolicy{nil, {release.HookBeforeHookCreation, release.HookFailed}, {release.HookSucceeded, release.HookFailed, release.HookBeforeHookCreation}}

// ndDoc draws one document. orderOnly: the kind varies over the whole menu and
// the document is either a plain manifest or a hook with a fixed known event;
// otherwise the kind is one of two and everything about the annotations varies.
func ndDoc(id int, file string, orderOnly bool) *docSpec {
	d := &docSpec{id: id, file: file}
	if !orderOnly && id > 0 {
		// only the first document is fully general; the others are a plain
		// manifest or a well-formed hook (keeps the cross product in reach)
		d.kind = kindMenu[1]
		d.meta = 1
		if ndBool("isHook") {
			d.meta, d.events, d.weight = 4, "pre-install", "1"
		}
	} else if orderOnly {
		d.kind = kindMenu[ndChoice("kind", vBound("kinds", len(kindMenu)))]
		d.meta = 1
		if ndBool("isHook") {
			d.meta, d.events = 4, "pre-install"
		}
	} else {
		d.kind = kindMenu[1+ndChoice("kind", 2)]
		d.meta = ndChoice("meta", 5)
		if d.meta == 4 {
			e := ndChoice("events", len(eventMenu))
			d.events, d.unknown, d.eventIx = eventMenu[e], eventUnknown[e], e
			d.weight = ndStringIn("weight", ndIntRange("weight.len", 0, 2), "-0159a ")
			d.policyIx = ndChoice("policy", len(policyMenu))
			d.policy = policyMenu[d.policyIx]
		}
	}
	if ndNative() {
		var sb strings.Builder
		fmt.Fprintf(&sb, "# doc-%d\napiVersion: v1\n", id)
		if d.kind != "" {
			fmt.Fprintf(&sb, "kind: %s\n", d.kind)
		}
		if d.meta > 0 {
			fmt.Fprintf(&sb, "metadata:\n  name: n%d\n", id)
			switch d.meta {
			case 2:
				sb.WriteString("  annotations: {}\n")
			case 3:
				sb.WriteString("  annotations:\n    other: x\n")
			case 4:
				fmt.Fprintf(&sb, "  annotations:\n    %q: %q\n    %q: %q\n", release.HookAnnotation, d.events, release.HookWeightAnnotation, d.weight)
				if d.policy != "" {
					fmt.Fprintf(&sb, "    %q: %q\n", release.HookDeleteAnnotation, d.policy)
				}
			}
		}
		d.text = strings.TrimSpace(sb.String())
	} else {
		d.text = fmt.Sprintf("# doc-%d\nplaceholder: true", id)
	}
	// a document may embed text that looks like a separator: an INDENTED "---" line inside a
	// block scalar is content, not a document boundary
	if !orderOnly && id == 0 && ndBool("embeddedSeparatorLine") {
		d.text += "\ndata:\n  embedded: |\n    first\n    ---\n    second"
	}
	return d
}

var sepMenu = []string{"\n---\n", "\n---\n---\n", "\r\n---\r\n", "\n--- \n\n"}

func kindRank(k string, o KindSortOrder) int {
	for i, x := range o {
		if x == k {
			return i
		}
	}
	return len(o)
}

func H08Partition() { h08(false) }

// H08Order: up to three documents whose kinds range over known and unknown
// kinds, plain or hooks: ordering by the fixed kind order, stability.
func H08Order() { h08(true) }

func h08(orderOnly bool) {
	docSpecs = nil
	files := map[string]string{}
	names := []string{"templates/a.yaml", "templates/b.yaml", "templates/_helpers.tpl"}

	nf := ndIntRange("files", 1, vBound("files", 2))
	if orderOnly {
		nf = 1
	}
	partialFile := -1
	layout := 0
	if !orderOnly {
		layout = ndChoice("layout", 4)
	}
	if !orderOnly && layout == 0 && ndBool("underscoreDirectory") {
		// only a FILE name starting with "_" marks a partial; a directory named like that does not
		names[0] = "templates/_internal/a.yaml"
	}
	if layout == 1 {
		partialFile = nf // an extra _-prefixed file whose documents must never appear
		nf++
	}
	id := 0
	for f := 0; f < nf; f++ {
		name := names[f]
		if f == partialFile {
			name = names[2]
		}
		nd := ndIntRange("docs", 1, vBound("docs", 2))
		if orderOnly {
			nd = ndIntRange("odocs", 1, vBound("odocs", 3))
		}
		if f == partialFile {
			nd = 1
		}
		var sb strings.Builder
		if layout == 2 {
			sb.WriteString("---\n")
		}
		for k := 0; k < nd; k++ {
			d := ndDoc(id, name, orderOnly)
			docSpecs = append(docSpecs, d)
			id++
			if k > 0 {
				if orderOnly {
					sb.WriteString(sepMenu[0])
				} else {
					sb.WriteString(sepMenu[ndChoice("sep", len(sepMenu))])
				}
			}
			sb.WriteString(d.text)
		}
		if layout == 3 {
			sb.WriteString("\n---\n  \n")
		}
		files[name] = sb.String()
	}
	order := InstallOrder
	uninstall := orderOnly && ndBool("uninstallOrder")
	if uninstall {
		order = UninstallOrder
	}
	hooks, generic, err := SortManifests(files, nil, order)
	vAssert("sort/noerr", err == nil)

	// partition: each document exactly once in generic ∪ hooks, or dropped iff unknown event
	for _, d := range docSpecs {
		inG, inH := 0, 0
		for _, m := range generic {
			if stripLeadingSep(m.Content) == d.text {
				inG++
				vAssert("partition/generic-keeps-file-name", m.Name == d.file)
			}
		}
		for _, h := range hooks {
			if stripLeadingSep(h.Manifest) == d.text {
				inH++
				vAssert("partition/hook-keeps-path", h.Path == d.file && h.Kind == d.kind)
			}
		}
		switch {
		case d.file == names[2]:
			vAssert("partition/partials-never-applied", inG == 0 && inH == 0)
		case d.meta == 4 && d.unknown:
			vAssert("partition/unknown-event-dropped", inG == 0 && inH == 0)
		case d.meta == 4:
			vAssert("partition/hook-exactly-once", inG == 0 && inH == 1)
		default:
			vAssert("partition/manifest-exactly-once", inG == 1 && inH == 0)
		}
	}
	// nothing else appears
	vAssert("partition/no-extra-documents", len(generic)+len(hooks) <= len(docSpecs))
	for _, m := range generic {
		found := false
		for _, d := range docSpecs {
			if stripLeadingSep(m.Content) == d.text {
				found = true
			}
		}
		vAssert("partition/generic-content-unaltered", found)
	}
	// order: by kind rank (unknown kinds last, alphabetical among themselves), stable within a kind
	for i := 0; i+1 < len(generic); i++ {
		a, b := generic[i], generic[i+1]
		ra, rb := kindRank(a.Head.Kind, order), kindRank(b.Head.Kind, order)
		vAssert("order/kind-rank-nondecreasing", ra <= rb)
		if ra == rb && ra == len(order) {
			vAssert("order/unknown-kinds-alphabetical", a.Head.Kind <= b.Head.Kind)
		}
		if a.Head.Kind == b.Head.Kind {
			// stable: original document order (ids ascend in file-name order, then position)
			ia, ib := docIDOf(a.Content), docIDOf(b.Content)
			vAssert("order/stable-within-kind", ia < ib)
		}
	}
	for i := 0; i+1 < len(hooks); i++ {
		ra, rb := kindRank(hooks[i].Kind, order), kindRank(hooks[i+1].Kind, order)
		vAssert("order/hooks-kind-rank-nondecreasing", ra <= rb)
	}
	// hook fields
	for _, h := range hooks {
		d := docSpecs[docIDOf(h.Manifest)]
		w, werr := strconv.Atoi(d.weight)
		if werr != nil {
			w = 0
		}
		vAssert("hook/weight", h.Weight == w)
		vAssert("hook/has-events", len(h.Events) >= 1)
		np := 0
		if d.policy != "" {
			np = strings.Count(d.policy, ",") + 1
		}
		vAssert("hook/delete-policies", len(h.DeletePolicies) == np)
		if !orderOnly && d.id == 0 && d.meta == 4 {
			// exact oracle for the fully general first document: events and delete
			// policies are the trimmed, lower-cased items of the annotation, in order
			want := eventWant[d.eventIx]
			vAssert("hook/events-exactly-the-annotated-ones", len(h.Events) == len(want))
			for k := range want {
				vAssert("hook/events-exactly-the-annotated-ones", k < len(h.Events) && h.Events[k] == want[k])
			}
			wp := policyWant[d.policyIx]
			for k := range wp {
				vAssert("hook/delete-policies-exactly-the-annotated-ones", k < len(h.DeletePolicies) && h.DeletePolicies[k] == wp[k])
			}
		}
	}
	vObservef("docs=%d generic=%d hooks=%d uninstall=%v", len(docSpecs), len(generic), len(hooks), uninstall)
}

func docIDOf(text string) int {
	text = stripLeadingSep(text)
	end := strings.IndexByte(text, '\n')
	if end < 0 {
		end = len(text)
	}
	id, _ := strconv.Atoi(text[len("# doc-"):end])
	return id
}
