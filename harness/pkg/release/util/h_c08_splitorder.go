package util

// C08 / C05 — "original order kept within a kind", "the same hooks in the same
// order": the documents of one template file are numbered manifest-<n> by
// SplitManifests and put back in order by BySplitManifestsOrder. For every pair
// of document numbers up to the bound (symbolic decimal digits through the real
// strconv.ParseInt), Less is exactly numeric order — so no two documents of a
// file ever compare equal and fall back to map iteration order.

import "fmt"

func H08SplitOrder() {
	max := vBound("docindex", 999)
	na, nb := ndInt("a"), ndInt("b") // symbolic (ndIntRange would enumerate)
	vAssume(na >= 0)
	vAssume(na <= max)
	vAssume(nb >= 0)
	vAssume(nb <= max)
	keys := BySplitManifestsOrder{fmt.Sprintf("manifest-%d", na), fmt.Sprintf("manifest-%d", nb)}
	vAssert("splitorder/less-is-numeric-order", keys.Less(0, 1) == (na < nb))
	vAssert("splitorder/greater-is-numeric-order", keys.Less(1, 0) == (nb < na))
	vObservef("a=%d b=%d less=%v", na, nb, keys.Less(0, 1))
}
