package util

// C12 ("ascending weight") — the weight a hook runs with is the signed decimal
// number written in its helm.sh/hook-weight annotation: for every weight in the
// bound, negative ones included, calculateHookWeight (the real strconv.Atoi on
// symbolic digits) returns exactly that number, so that the order
// hookByWeight imposes is the order the chart author wrote down.

import (
	"fmt"
	"strings"

	release "helm.sh/helm/v4/pkg/release/v1"
)

func H12Weight() {
	max := vBound("maxweight", 9999)
	w := ndInt("w")
	vAssume(w >= -max)
	vAssume(w <= max)
	s := fmt.Sprintf("%d", w)
	if w >= 0 && ndBool("plusSign") {
		s = "+" + s
	}
	h := SimpleHead{Kind: "Job", Metadata: &struct {
		Name        string            `json:"name"`
		Annotations map[string]string `json:"annotations"`
	}{Name: "h", Annotations: map[string]string{release.HookWeightAnnotation: s}}}
	vAssert("weight/annotation-parsed-as-signed-decimal", calculateHookWeight(h) == w)
	vObservef("%q -> %d", s, calculateHookWeight(h))
}

// H12Policies ("honour delete policies") — the delete policies a hook carries are
// exactly the comma-separated items of its helm.sh/hook-delete-policy annotation,
// each trimmed and lower-cased, in order — however the author spaced or cased the
// list. Runs the real SortManifests / manifestFile.sort / operateAnnotationValues
// (YAML decoding cut as in H08Partition; the native replay parses the real YAML).
func H12Policies() {
	names := []release.HookDeletePolicy{release.HookSucceeded, release.HookFailed, release.HookBeforeHookCreation}
	n := ndIntRange("policies", 1, vBound("policies", 3))
	var want []release.HookDeletePolicy
	ann := ""
	for k := 0; k < n; k++ {
		p := names[ndChoice("policy", len(names))]
		item := string(p)
		switch ndChoice("spelling", 3) {
		case 1:
			item = " " + item
		case 2:
			item = "\t " + strings.ToUpper(item[:1]) + item[1:] + " "
		}
		if k > 0 {
			ann += ","
		}
		ann += item
		want = append(want, p)
	}
	d := &docSpec{id: 0, file: "templates/h.yaml", kind: "Job", meta: 4, events: "pre-install", weight: "0", policy: ann}
	d.text = "# doc-0\nplaceholder: true"
	if ndNative() {
		d.text = fmt.Sprintf("# doc-0\napiVersion: v1\nkind: Job\nmetadata:\n  name: n0\n  annotations:\n    %q: %q\n    %q: %q\n    %q: %q",
			release.HookAnnotation, d.events, release.HookWeightAnnotation, d.weight, release.HookDeleteAnnotation, d.policy)
	}
	docSpecs = []*docSpec{d}
	hooks, generic, err := SortManifests(map[string]string{d.file: d.text}, nil, InstallOrder)
	vAssert("policies/sorted", err == nil && len(hooks) == 1 && len(generic) == 0)
	if len(hooks) != 1 {
		return
	}
	got := hooks[0].DeletePolicies
	vAssert("policies/exactly-the-annotated-ones-in-order", len(got) == len(want))
	for k := range want {
		vAssert("policies/exactly-the-annotated-ones-in-order", k < len(got) && got[k] == want[k])
	}
	vObservef("%q -> %v", ann, got)
}
