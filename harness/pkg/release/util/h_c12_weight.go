package util

// C12 ("ascending weight") — the weight a hook runs with is the signed decimal
// number written in its helm.sh/hook-weight annotation: for every weight in the
// bound, negative ones included, calculateHookWeight (the real strconv.Atoi on
// symbolic digits) returns exactly that number, so that the order
// hookByWeight imposes is the order the chart author wrote down.

import (
	"fmt"

	release "helm.sh/helm/v4/pkg/release/v1"
)

func H12Weight() {
	max := vBound("maxweight", 9999)
	w := ndInt("w")
	vAssume(w >= -max)
	vAssume(w <= max)
	s := fmt.Sprintf("%d", w)
	if w >= 0 && ndBool("plusSign") {
		s = "+" + s
	}
	h := SimpleHead{Kind: "Job", Metadata: &struct {
		Name        string            `json:"name"`
		Annotations map[string]string `json:"annotations"`
	}{Name: "h", Annotations: map[string]string{release.HookWeightAnnotation: s}}}
	vAssert("weight/annotation-parsed-as-signed-decimal", calculateHookWeight(h) == w)
	vObservef("%q -> %d", s, calculateHookWeight(h))
}
