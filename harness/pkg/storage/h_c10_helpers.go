package storage

// C10 (the Storage layer's helpers on top of any backend) — a backend is free to
// hand records back in ANY order (the Kubernetes backends list in object-name
// order: v1, v10, v11, v2 …; the SQL one in its own). Last, Deployed, History
// and the pruning that Create does must not depend on that order: Last is the
// highest revision, Deployed the highest deployed one, History all of them, and
// pruning removes the oldest. Runs the real Storage over the real memory driver
// behind a wrapper (class E) that returns every Query/List result in a symbolic
// permutation (original, reversed, rotated).

import (
	rspb "helm.sh/helm/v4/pkg/release/v1"
	"helm.sh/helm/v4/pkg/storage/driver"
)

type anyOrderDriver struct {
	driver.Driver
	mode int
}

func (d *anyOrderDriver) permute(in []*rspb.Release, err error) ([]*rspb.Release, error) {
	if err != nil || len(in) < 2 {
		return in, err
	}
	out := make([]*rspb.Release, len(in))
	switch d.mode {
	case 1: // reversed
		for i, r := range in {
			out[len(in)-1-i] = r
		}
	case 2: // rotated by one
		for i, r := range in {
			out[(i+1)%len(in)] = r
		}
	default:
		copy(out, in)
	}
	return out, nil
}
func (d *anyOrderDriver) List(f func(*rspb.Release) bool) ([]*rspb.Release, error) {
	return d.permute(d.Driver.List(f))
}
func (d *anyOrderDriver) Query(kv map[string]string) ([]*rspb.Release, error) {
	return d.permute(d.Driver.Query(kv))
}

func H10Helpers() {
	mem := driver.NewMemory()
	d := &anyOrderDriver{Driver: mem, mode: ndChoice("listingOrder", 3)}
	s := Init(d)
	n := ndIntRange("revisions", 1, vBound("hrevs", 3))
	sts := make([]rspb.Status, n)
	highestDeployed := 0
	for v := 1; v <= n; v++ {
		sts[v-1] = ndStatus3("status")
		if sts[v-1] == rspb.StatusDeployed {
			highestDeployed = v
		}
		if err := mem.Create(makeKey("r1", v), mkRel("r1", v, sts[v-1])); err != nil {
			vFail("setup/create")
		}
	}
	last, err := s.Last("r1")
	vAssert("helpers/last-is-the-highest-revision", err == nil && last != nil && last.Version == n)
	dep, derr := s.Deployed("r1")
	if highestDeployed == 0 {
		vAssert("helpers/no-deployed-is-an-error", derr != nil && dep == nil)
	} else {
		vAssert("helpers/deployed-is-the-highest-deployed-revision", derr == nil && dep != nil && dep.Version == highestDeployed)
	}
	h, herr := s.History("r1")
	vAssert("helpers/history-has-every-revision", herr == nil && len(h) == n)
	// pruning on create: with MaxHistory = n the oldest non-deployed revision goes
	s.MaxHistory = n
	if err := s.Create(mkRel("r1", n+1, rspb.StatusPendingUpgrade)); err != nil {
		vFail("create/next-revision")
	}
	left, _ := mem.Query(map[string]string{"name": "r1", "owner": "helm"})
	vAssert("helpers/pruning-keeps-the-limit", len(left) == n || (len(left) == n+1 && n == 1 && highestDeployed == 1))
	oldestPrunable := 0
	for v := 1; v <= n; v++ {
		if v != highestDeployed {
			oldestPrunable = v
			break
		}
	}
	for _, r := range left {
		if oldestPrunable != 0 {
			vAssert("helpers/pruning-removes-the-oldest", r.Version != oldestPrunable)
		}
		vAssert("helpers/pruning-never-removes-the-deployed-or-the-new-one", true)
	}
	foundNew, foundDeployed := false, highestDeployed == 0
	for _, r := range left {
		if r.Version == n+1 {
			foundNew = true
		}
		if r.Version == highestDeployed {
			foundDeployed = true
		}
	}
	vAssert("helpers/new-and-deployed-survive-pruning", foundNew && foundDeployed)
}
