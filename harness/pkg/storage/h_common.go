package storage

import (
	chartutil "helm.sh/helm/v4/pkg/chart/v2/util"
	rspb "helm.sh/helm/v4/pkg/release/v1"
)

// ordered so that a prefix (bound "nstatus") is already representative
var allStatuses = []rspb.Status{
	rspb.StatusDeployed, rspb.StatusSuperseded, rspb.StatusFailed, rspb.StatusPendingUpgrade,
	rspb.StatusUninstalled, rspb.StatusUninstalling, rspb.StatusPendingInstall, rspb.StatusPendingRollback, rspb.StatusUnknown,
}

func ndStatus(name string) rspb.Status { return allStatuses[ndChoice(name, len(allStatuses))] }

var fewStatuses = []rspb.Status{rspb.StatusDeployed, rspb.StatusSuperseded, rspb.StatusPendingUpgrade}

func ndStatus3(name string) rspb.Status { return fewStatuses[ndChoice(name, 3)] }

// ndRelName: a symbolic release name of 1..max bytes over the alphabet that
// exercises the key grammar ("." "v" digits "-"), assumed valid by helm's own
// ValidateReleaseName (the real regexp, decided symbolically).
func ndRelName(name string, max int) string {
	n := ndIntRange(name+".len", 1, max)
	s := ndStringIn(name, n, "av1.-")
	vAssume(chartutil.ValidateReleaseName(s) == nil)
	return s
}

func mkRel(name string, ver int, st rspb.Status) *rspb.Release {
	return &rspb.Release{Name: name, Version: ver, Namespace: "default", Info: &rspb.Info{Status: st}}
}

