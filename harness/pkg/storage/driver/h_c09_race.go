package driver

// C09 (last sentence) — "concurrent use of one storage backend from several
// goroutines is free of data races": two goroutines run symbolic pairs of
// operations (create, get, update, delete, query, list) on one Memory driver.
// The engine checks the LOCK DISCIPLINE of the driver's own code on every heap
// cell and map it touches (lockset analysis, see engine/race.go): a location
// written by one goroutine and accessed by another must be protected by a
// common lock. The verdict does not depend on the interleaving. Natively the
// same operation pairs run 200 times each under the Go race detector.

import (
	"sync"

	rspb "helm.sh/helm/v4/pkg/release/v1"
)

func raceRel(name string, ver int, st rspb.Status) *rspb.Release {
	return &rspb.Release{Name: name, Version: ver, Namespace: "default", Info: &rspb.Info{Status: st}}
}

func H09Race() {
	mem := NewMemory()
	if err := mem.Create("sh.helm.release.v1.r1.v1", raceRel("r1", 1, rspb.StatusDeployed)); err != nil {
		vFail("setup/create")
	}
	var ops [2][2]int
	for g := 0; g < 2; g++ {
		for k := 0; k < 2; k++ {
			ops[g][k] = ndChoice("op", 6)
		}
	}
	iters := 1
	if ndNative() {
		iters = 200
	}
	ndRace("helm.sh/helm/v4/pkg/storage/driver")
	var wg sync.WaitGroup
	for g := 0; g < 2; g++ {
		wg.Add(1)
		go func(g int) {
			defer wg.Done()
			for it := 0; it < iters; it++ {
				for _, op := range ops[g] {
					switch op {
					case 0:
						mem.Create("sh.helm.release.v1.r1.v"+string(rune('2'+g)), raceRel("r1", 2+g, rspb.StatusDeployed))
					case 1:
						mem.Get("sh.helm.release.v1.r1.v1")
					case 2:
						mem.Update("sh.helm.release.v1.r1.v1", raceRel("r1", 1, rspb.StatusSuperseded))
					case 3:
						mem.Delete("sh.helm.release.v1.r1.v" + string(rune('2'+g)))
					case 4:
						mem.Query(map[string]string{"name": "r1", "owner": "helm"})
					case 5:
						mem.List(func(*rspb.Release) bool { return true })
					}
				}
			}
		}(g)
	}
	wg.Wait()
	ndRace("")
	vAssert("race/both-goroutines-finished", true)
}
