package driver

// C10 ("for every valid release name") — the memory backend finds, by key, every
// record it stored, whatever the release name looks like: names up to 6 bytes
// over {a, v, 1, '.'} — so that ".v" can occur several times, as in a.v.v or
// v.v1.v — accepted by helm's own name validation, with a symbolic revision.
// Only Create / Get / Delete of ONE record (the key grammar), so that the long
// names stay cheap.

import (
	"errors"
	"fmt"

	chartutil "helm.sh/helm/v4/pkg/chart/v2/util"
	rspb "helm.sh/helm/v4/pkg/release/v1"
)

func H10Key() {
	n := ndIntRange("name.len", 1, vBound("keynamelen", 6))
	name := ndStringIn("name", n, "av1.")
	vAssume(chartutil.ValidateReleaseName(name) == nil)
	ver := ndInt("version")
	vAssume(ver >= 1)
	vAssume(ver <= 99)
	key := fmt.Sprintf("sh.helm.release.v1.%s.v%d", name, ver)
	mem := NewMemory()
	rls := &rspb.Release{Name: name, Version: ver, Namespace: "default", Info: &rspb.Info{Status: rspb.StatusDeployed}}
	vAssert("key/create", mem.Create(key, rls) == nil)
	got, err := mem.Get(key)
	vAssert("key/get-finds-what-was-stored", err == nil && got != nil && got.Name == name && got.Version == ver)
	other := fmt.Sprintf("sh.helm.release.v1.%s.v%d", name, ver+1)
	_, err = mem.Get(other)
	vAssert("key/other-revision-is-not-found", errors.Is(err, ErrReleaseNotFound))
	del, err := mem.Delete(key)
	vAssert("key/delete-returns-what-was-stored", err == nil && del != nil && del.Name == name && del.Version == ver)
	_, err = mem.Get(key)
	vAssert("key/gone-after-delete", errors.Is(err, ErrReleaseNotFound))
	vObservef("%q v%d", name, ver)
}
