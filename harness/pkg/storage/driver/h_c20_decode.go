package driver

// C20 (stored release record) — decodeRelease on an arbitrary stored payload
// returns a release or an error, never panics: symbolic payload text over the
// base64 alphabet subset that spells the gzip magic ("H4sI…"), padding and a
// non-alphabet byte, lengths 0..6, through the real base64 decoder and the real
// magic-header test. Cuts (class S): gzip.NewReader and json.Unmarshal answer
// "not a gzip stream" / "not JSON" (what short garbage is).

import (
	"compress/gzip"
	"encoding/json"
	"errors"
	"io"
)

//verif:stub compress/gzip.NewReader -> dcGzipNewReader
//verif:stub encoding/json.Unmarshal -> dcJSONUnmarshal

func dcGzipNewReader(r io.Reader) (*gzip.Reader, error) { return nil, errors.New("gzip: invalid header") }
func dcJSONUnmarshal(data []byte, v any) error          { return errors.New("invalid character") }

var _ = json.Unmarshal

func H20Decode() {
	n := ndIntRange("len", 0, vBound("payload", 6))
	data := ndStringIn("data", n, "H4sIA=!")
	rls, err := decodeRelease(data)
	vAssert("decode/garbage-is-an-error-not-a-release", err != nil && rls == nil)
	vObservef("%q -> err=%v", data, err != nil)
}
