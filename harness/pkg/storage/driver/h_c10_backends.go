package driver

// C10 — the memory, Secret and ConfigMap backends behave as the same map from
// key to release; C20 — an unreadable stored record makes Get return an error
// (never a crash) and is skipped by List/Query while the readable ones are
// returned. Runs the real Memory, Secrets and ConfigMaps drivers, their label
// handling (labels.go, util.go filterSystemLabels) and the label-selector
// round trip (kblabels.Set.AsSelector / Parse / Matches from apimachinery's
// source). Cuts: the Kubernetes API is helm's own in-package test doubles
// MockSecretsInterface / MockConfigMapsInterface (class E); encodeRelease /
// decodeRelease (gzip+base64+JSON streams) are cut (class S) to a token table,
// natively the real codecs run.

import (
	"errors"
	"fmt"

	v1 "k8s.io/api/core/v1"
	metav1 "k8s.io/apimachinery/pkg/apis/meta/v1"

	rspb "helm.sh/helm/v4/pkg/release/v1"
)

//verif:stub helm.sh/helm/v4/pkg/storage/driver.encodeRelease -> stubEncodeRelease
//verif:stub helm.sh/helm/v4/pkg/storage/driver.decodeRelease -> stubDecodeRelease

var relTokens = map[string]*rspb.Release{}

func stubEncodeRelease(rls *rspb.Release) (string, error) {
	tok := fmt.Sprintf("tok%d", len(relTokens))
	c := *rls
	i := *rls.Info
	c.Info = &i
	c.Labels = nil // labels are not part of the encoded body (json:"-")
	relTokens[tok] = &c
	return tok, nil
}

func stubDecodeRelease(data string) (*rspb.Release, error) {
	r, ok := relTokens[data]
	if !ok {
		return nil, errors.New("illegal base64 data")
	}
	c := *r
	i := *r.Info
	c.Info = &i
	return &c, nil
}

func bkey(name string, ver int) string { return fmt.Sprintf("sh.helm.release.v1.%s.v%d", name, ver) }

var bNames = []string{"r1", "r2"}
var bStatuses = []rspb.Status{rspb.StatusDeployed, rspb.StatusSuperseded, rspb.StatusFailed}

// user label keys include ones that merely START like a system label
var bUserKeys = []string{"", "team", "owner-team", "status-page"}

func ndRelease(tag string) *rspb.Release {
	r := &rspb.Release{Name: bNames[ndChoice(tag+".name", len(bNames))], Namespace: "default",
		Info: &rspb.Info{Status: bStatuses[ndChoice(tag+".status", len(bStatuses))]}}
	v := ndInt(tag + ".ver")
	vAssume(v >= 1 && v <= vBound("maxver", 3))
	r.Version = v
	if k := bUserKeys[ndChoice(tag+".label", vBound("labels", len(bUserKeys)))]; k != "" {
		r.Labels = map[string]string{k: "x"}
	}
	return r
}

type backend struct {
	name string
	d    Driver
}

func newBackends() []backend {
	return []backend{
		{"memory", NewMemory()},
		{"secrets", NewSecrets(&MockSecretsInterface{objects: map[string]*v1.Secret{}})},
		{"configmaps", NewConfigMaps(&MockConfigMapsInterface{objects: map[string]*v1.ConfigMap{}})},
	}
}

func sameRelease(got, want *rspb.Release) bool {
	if got == nil || want == nil {
		return got == want
	}
	if got.Name != want.Name || got.Version != want.Version || got.Namespace != want.Namespace || got.Info.Status != want.Info.Status {
		return false
	}
	// user labels come back exactly (system labels are the store's business)
	if len(got.Labels) != len(want.Labels) {
		return false
	}
	for k, v := range want.Labels {
		if got.Labels[k] != v {
			return false
		}
	}
	return true
}

func H10Backends() {
	relTokens = map[string]*rspb.Release{}
	bs := newBackends()
	nb := vBound("backends", 3)
	ref := map[string]*rspb.Release{}
	n := ndIntRange("n", 0, vBound("recs", 2))
	for i := 0; i < n; i++ {
		r := ndRelease("pre")
		key := bkey(r.Name, r.Version)
		_, dup := ref[key]
		for _, b := range bs[:nb] {
			err := b.d.Create(key, r)
			if dup {
				vAssert("create/existing-key-fails", errors.Is(err, ErrReleaseExists))
			} else {
				vAssert("create/new-key-ok", err == nil)
			}
		}
		if !dup {
			ref[key] = r
		}
	}
	q := ndRelease("q")
	qkey := bkey(q.Name, q.Version)
	want, present := ref[qkey]
	op := ndChoice("op", 5)
	for _, b := range bs[:nb] {
		vTag("backend=" + b.name)
		switch op {
		case 0:
			got, err := b.d.Get(qkey)
			if present {
				vAssert("get/present-equal", err == nil && sameRelease(got, want))
			} else {
				vAssert("get/missing-notfound", errors.Is(err, ErrReleaseNotFound) && got == nil)
			}
		case 1:
			got, err := b.d.Delete(qkey)
			if present {
				vAssert("delete/returns-stored", err == nil && sameRelease(got, want))
			} else {
				vAssert("delete/missing-notfound", errors.Is(err, ErrReleaseNotFound) && got == nil)
			}
		case 2:
			err := b.d.Update(qkey, q)
			if present {
				vAssert("update/present-ok", err == nil)
			} else {
				vAssert("update/missing-fails", err != nil)
			}
		case 3:
			err := b.d.Create(qkey, q)
			if present {
				vAssert("create2/existing-key-fails", errors.Is(err, ErrReleaseExists))
			} else {
				vAssert("create2/new-key-ok", err == nil)
			}
		case 4:
			got, err := b.d.Query(map[string]string{"name": q.Name, "owner": "helm", "status": string(q.Info.Status)})
			cnt := 0
			for _, r := range ref {
				if r.Name == q.Name && r.Info.Status == q.Info.Status {
					cnt++
				}
			}
			if cnt == 0 {
				vAssert("query/none-notfound", errors.Is(err, ErrReleaseNotFound))
			} else {
				vAssert("query/exactly-the-matching-records", err == nil && len(got) == cnt)
				for _, r := range got {
					vAssert("query/members-match", r.Name == q.Name && r.Info.Status == q.Info.Status)
				}
			}
		}
	}
	switch op {
	case 1:
		delete(ref, qkey)
	case 2:
		if present {
			ref[qkey] = q
		}
	case 3:
		if !present {
			ref[qkey] = q
		}
	}
	for _, b := range bs[:nb] {
		vTag("backend=" + b.name)
		for key, r := range ref {
			got, err := b.d.Get(key)
			vAssert("post/every-key-reads-back", err == nil && sameRelease(got, r))
		}
		all, err := b.d.List(func(*rspb.Release) bool { return true })
		vAssert("post/list-size", err == nil && len(all) == len(ref))
	}
}

// H10ReadModifyWrite: what helm's actions do all the time — read a release back
// (Get / Query / List), change its status, write it with Update — and then the
// status queries must see the new status and only the new status, on every backend.
func H10ReadModifyWrite() {
	relTokens = map[string]*rspb.Release{}
	bs := newBackends()
	oldSt := bStatuses[ndChoice("old.status", len(bStatuses))]
	newSt := bStatuses[ndChoice("new.status", len(bStatuses))]
	vAssume(oldSt != newSt)
	how := ndChoice("readVia", 3)
	withLabel := ndBool("userLabel")
	for _, b := range bs[:vBound("backends", 3)] {
		vTag("backend=" + b.name)
		r := &rspb.Release{Name: "r1", Version: 1, Namespace: "default", Info: &rspb.Info{Status: oldSt}}
		if withLabel {
			r.Labels = map[string]string{"team": "x"}
		}
		key := bkey("r1", 1)
		if err := b.d.Create(key, r); err != nil {
			vFail("setup/create")
		}
		var got *rspb.Release
		switch how {
		case 0:
			g, err := b.d.Get(key)
			vAssert("rmw/get", err == nil && g != nil)
			got = g
		case 1:
			l, err := b.d.Query(map[string]string{"name": "r1", "owner": "helm", "status": string(oldSt)})
			vAssert("rmw/query", err == nil && len(l) == 1)
			got = l[0]
		case 2:
			l, err := b.d.List(func(*rspb.Release) bool { return true })
			vAssert("rmw/list", err == nil && len(l) == 1)
			got = l[0]
		}
		got.Info.Status = newSt
		vAssert("rmw/update-ok", b.d.Update(key, got) == nil)
		stale, err := b.d.Query(map[string]string{"name": "r1", "owner": "helm", "status": string(oldSt)})
		vAssert("rmw/old-status-no-longer-matches", len(stale) == 0 && errors.Is(err, ErrReleaseNotFound))
		fresh, err := b.d.Query(map[string]string{"name": "r1", "owner": "helm", "status": string(newSt)})
		vAssert("rmw/new-status-matches", err == nil && len(fresh) == 1 && fresh[0].Info.Status == newSt)
		back, err := b.d.Get(key)
		vAssert("rmw/reads-back-updated", err == nil && back.Info.Status == newSt && back.Version == 1 && back.Name == "r1")
		if withLabel {
			vAssert("rmw/user-label-kept", back.Labels["team"] == "x")
		}
	}
}

// H20Corrupt: one stored record whose body does not decode, next to a good one.
func H20Corrupt() {
	relTokens = map[string]*rspb.Release{}
	sec := &MockSecretsInterface{objects: map[string]*v1.Secret{}}
	cfg := &MockConfigMapsInterface{objects: map[string]*v1.ConfigMap{}}
	ds := []backend{{"secrets", NewSecrets(sec)}, {"configmaps", NewConfigMaps(cfg)}}
	good := &rspb.Release{Name: "r1", Version: 1, Namespace: "default", Info: &rspb.Info{Status: rspb.StatusDeployed}}
	sysLabels := map[string]string{"name": "r1", "owner": "helm", "status": "deployed", "version": "2"}
	badKey := bkey("r1", 2)
	sec.objects[badKey] = &v1.Secret{ObjectMeta: metav1.ObjectMeta{Name: badKey, Labels: sysLabels}, Data: map[string][]byte{"release": []byte("!!not-a-release!!")}}
	cfg.objects[badKey] = &v1.ConfigMap{ObjectMeta: metav1.ObjectMeta{Name: badKey, Labels: sysLabels}, Data: map[string]string{"release": "!!not-a-release!!"}}
	if ndBool("missingDataKey") {
		sec.objects[badKey].Data = nil
		cfg.objects[badKey].Data = nil
	}
	for _, b := range ds {
		vTag("backend=" + b.name)
		if err := b.d.Create(bkey("r1", 1), good); err != nil {
			vFail("setup/create")
		}
		switch ndChoice("op", 3) {
		case 0:
			got, err := b.d.Get(badKey)
			vAssert("corrupt/get-is-an-error", err != nil && got == nil)
		case 1:
			all, err := b.d.List(func(*rspb.Release) bool { return true })
			vAssert("corrupt/list-skips-unreadable-returns-others", err == nil && len(all) == 1 && all[0].Version == 1)
		case 2:
			got, err := b.d.Query(map[string]string{"name": "r1", "owner": "helm"})
			vAssert("corrupt/query-skips-unreadable-returns-others", err == nil && len(got) == 1 && got[0].Version == 1)
		}
	}
}
