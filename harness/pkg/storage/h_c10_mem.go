package storage

// C10 — the memory backend behaves as a map from (release name, revision) to
// release. One step from an arbitrary store: up to `recs` records created
// through Storage (so makeKey is included) with symbolic valid names, symbolic
// revisions and statuses; then one symbolic operation, checked against a
// reference map kept by the harness.

import (
	"errors"

	rspb "helm.sh/helm/v4/pkg/release/v1"
	"helm.sh/helm/v4/pkg/storage/driver"
)

type refKey struct {
	name string
	ver  int
}

func H10MemStep() {
	s := Init(driver.NewMemory())
	ref := map[refKey]*rspb.Release{}
	maxName := vBound("namelen", 3)
	n := ndIntRange("n", 0, vBound("recs", 2))
	for i := 0; i < n; i++ {
		name := ndRelName("name", maxName)
		ver := ndInt("ver")
		vAssume(ver >= 0 && ver <= vBound("maxver", 9))
		rel := mkRel(name, ver, ndStatus3("st"))
		err := s.Create(rel)
		if _, dup := ref[refKey{name, ver}]; dup {
			vAssert("create/existing-key-fails", errors.Is(err, driver.ErrReleaseExists))
		} else {
			vAssert("create/new-key-ok", err == nil)
			ref[refKey{name, ver}] = rel
		}
	}
	qn := ndRelName("qname", maxName)
	qv := ndInt("qver")
	vAssume(qv >= 0 && qv <= vBound("maxver", 9))
	want, present := ref[refKey{qn, qv}]
	switch ndChoice("op", 5) {
	case 0: // Get
		got, err := s.Get(qn, qv)
		if present {
			vAssert("get/present", err == nil && got == want)
		} else {
			vAssert("get/missing-notfound", errors.Is(err, driver.ErrReleaseNotFound) && got == nil)
		}
	case 1: // Delete returns the stored release and removes exactly that key
		got, err := s.Delete(qn, qv)
		if present {
			vAssert("delete/returns-stored", err == nil && got == want)
			delete(ref, refKey{qn, qv})
		} else {
			vAssert("delete/missing-notfound", errors.Is(err, driver.ErrReleaseNotFound) && got == nil)
		}
	case 2: // Update
		nr := mkRel(qn, qv, ndStatus3("ust"))
		err := s.Update(nr)
		if present {
			vAssert("update/present-ok", err == nil)
			ref[refKey{qn, qv}] = nr
		} else {
			vAssert("update/missing-notfound", errors.Is(err, driver.ErrReleaseNotFound))
		}
	case 3: // Create
		nr := mkRel(qn, qv, ndStatus3("cst"))
		err := s.Create(nr)
		if present {
			vAssert("create2/existing-key-fails", errors.Is(err, driver.ErrReleaseExists))
		} else {
			vAssert("create2/new-key-ok", err == nil)
			ref[refKey{qn, qv}] = nr
		}
	case 4: // History(name): exactly the stored releases with that name
		h, err := s.History(qn)
		cnt := 0
		for k := range ref {
			if k.name == qn {
				cnt++
			}
		}
		if cnt == 0 {
			vAssert("history/none-notfound", errors.Is(err, driver.ErrReleaseNotFound))
		} else {
			vAssert("history/count", err == nil && len(h) == cnt)
			for _, r := range h {
				vAssert("history/members", r.Name == qn && ref[refKey{r.Name, r.Version}] == r)
			}
		}
	}
	// whole observable state afterwards equals the reference
	for k, r := range ref {
		got, err := s.Get(k.name, k.ver)
		vAssert("post/every-ref-key-readable", err == nil && got == r)
	}
	all, err := s.ListReleases()
	vAssert("post/list-size", err == nil && len(all) == len(ref))
	d, derr := s.DeployedAll(qn)
	nd := 0
	for k, r := range ref {
		if k.name == qn && r.Info.Status == rspb.StatusDeployed {
			nd++
		}
	}
	if nd == 0 {
		vAssert("post/deployed-none", derr != nil && len(d) == 0)
	} else {
		vAssert("post/deployed-count", derr == nil && len(d) == nd)
	}
}
