package storage

// C01 (pruning clause): "With a history limit N, pruning removes only the
// oldest revisions, never the currently deployed one, and leaves at most N
// revisions (N+1 only when the deployed revision would otherwise have been
// removed)". One Storage.Create from an arbitrary well-formed ledger:
// symbolic strictly increasing revisions, symbolic statuses (≤1 deployed),
// symbolic MaxHistory. Runs the real Storage.Create/removeLeastRecent/History/
// Deployed/DeployedAll/Delete, the memory driver and relutil sorting.

import (
	rspb "helm.sh/helm/v4/pkg/release/v1"
	"helm.sh/helm/v4/pkg/storage/driver"
)

func H01Prune() {
	s := Init(driver.NewMemory())
	n := ndIntRange("n", 0, vBound("recs", 4))
	vers := make([]int, 0, n)
	deployedVer := -1
	prev := 0
	for i := 0; i < n; i++ {
		v := ndInt("ver")
		vAssume(v > prev && v <= vBound("maxver", 97))
		prev = v
		st := allStatuses[ndChoice("st", vBound("nstatus", len(allStatuses)))]
		if st == rspb.StatusDeployed {
			vAssume(deployedVer < 0) // ledger invariant: at most one deployed
			deployedVer = v
		}
		vers = append(vers, v)
		// written through the driver directly: the pre-state is arbitrary, not pruned
		if err := s.Driver.Create(makeKey("r", v), mkRel("r", v, st)); err != nil {
			vFail("pre/create")
		}
	}
	max := ndInt("max")
	vAssume(max >= 0 && max <= vBound("maxhist", 6))
	s.MaxHistory = max
	nv := prev + 1
	err := s.Create(mkRel("r", nv, rspb.StatusPendingUpgrade))
	vAssert("create/ok", err == nil)

	h, herr := s.History("r")
	vAssert("history/readable", herr == nil)
	kept := map[int]bool{}
	for _, r := range h {
		kept[r.Version] = true
	}
	vAssert("new-revision-present", kept[nv])
	if deployedVer >= 0 {
		vAssert("deployed-never-pruned", kept[deployedVer])
	}
	// removed revisions form a prefix of the non-deployed revisions (oldest first)
	seenKeptNonDeployed := false
	for _, v := range vers {
		if v == deployedVer {
			continue
		}
		if kept[v] {
			seenKeptNonDeployed = true
		} else {
			vAssert("oldest-first", !seenKeptNonDeployed)
		}
	}
	// size bound
	if max > 0 {
		if len(h) > max {
			// N+1 only when the deployed revision would otherwise have been removed:
			// every surviving old revision is the deployed one
			onlyDeployedLeft := deployedVer >= 0
			for _, v := range vers {
				if kept[v] && v != deployedVer {
					onlyDeployedLeft = false
				}
			}
			vAssert("bound/N+1-only-for-deployed", len(h) == max+1 && onlyDeployedLeft)
		} else {
			vAssert("bound/at-most-N", len(h) <= max)
		}
		// and pruning is not over-eager: nothing is removed while there is room
		removed := n + 1 - len(h)
		if removed > 0 {
			vAssert("no-over-pruning", len(h) >= max)
		}
	} else {
		vAssert("no-limit/nothing-removed", len(h) == n+1)
	}
	// the ledger stays strictly increasing and unique
	for i := range h {
		for j := range h {
			if i != j {
				vAssert("unique-revisions", h[i].Version != h[j].Version)
			}
		}
	}
	vObservef("n=%d max=%d left=%d", n, max, len(h))
}
