package strvals

func plainByte(c byte) bool {
	return (c >= 'a' && c <= 'z') || c == '=' || c == ',' || c == '.' || c == '[' || c == ']' || c == '\\' || c == '{' || c == '}' || (c >= '0' && c <= '9')
}

func atomByte(c byte) bool { return c >= 'a' && c <= 'z' }

// HBringupConcrete: all-concrete smoke test
func HBringupConcrete() {
	m, err := Parse("a=b,c.d=e,l[1]=x")
	vAssert("noerr", err == nil)
	vAssert("a", m["a"] == "b")
	inner, ok := m["c"].(map[string]interface{})
	vAssert("c-map", ok)
	vAssert("c.d", inner["d"] == "e")
	l, ok := m["l"].([]interface{})
	vAssert("l-list", ok && len(l) == 2 && l[0] == nil && l[1] == "x")
}

// HBringupSym: name=val with symbolic atoms
func HBringupSym() {
	nk := ndIntRange("nk", 1, 2)
	nv := ndIntRange("nv", 1, 2)
	k := ndString("k", nk)
	v := ndString("v", nv)
	for i := 0; i < len(k); i++ {
		vAssume(atomByte(k[i]))
	}
	for i := 0; i < len(v); i++ {
		vAssume(atomByte(v[i]))
	}
	m, err := Parse(k + "=" + v)
	vAssert("noerr", err == nil)
	got, ok := m[k]
	vAssert("present", ok)
	s, isStr := got.(string)
	vAssert("is-string", isStr)
	vAssert("value", s == v)
	vAssert("only-key", len(m) == 1)
}

// HBringupBad: deliberately false assertion, to see a counterexample
func HBringupBad() {
	v := ndString("v", 2)
	vAssume(plainByte(v[0]) && plainByte(v[1]))
	m, err := Parse("a=" + v)
	if err == nil {
		_, isStr := m["a"].(string)
		vAssert("always-string", isStr)
	}
}
