package strvals

// C04 (clause: "A --set expression changes exactly the path it names, with its
// documented escaping, list-index and type rules, and nothing else") and C20
// (strvals entry points never panic). Runs the real parser.go /
// literal_parser.go; inputs are symbolic byte strings assembled per documented
// form.

import "fmt"


// atom: symbolic string of symbolic length 1..max over a-z.
func ndAtom(name string, max int) string {
	n := ndIntRange(name+".len", 1, max)
	return ndStringIn(name, n, "a-z")
}

func notKeyword(s string) bool {
	return s != "true" && s != "false" && s != "null"
}

// H04SetScalar: name=val, a.b=val, a\.b=val with plain string values.
func H04SetScalar() {
	k := ndAtom("k", 2)
	v := ndAtom("v", 4)
	vAssume(notKeyword(v))
	switch ndChoice("form", 3) {
	case 0: // name=val
		m, err := Parse(k + "=" + v)
		vAssert("scalar/noerr", err == nil)
		vAssert("scalar/only-key", len(m) == 1)
		vAssert("scalar/value", m[k] == v)
	case 1: // a.b=val
		k2 := ndAtom("k2", 2)
		m, err := Parse(k + "." + k2 + "=" + v)
		vAssert("nested/noerr", err == nil)
		vAssert("nested/only-key", len(m) == 1)
		in, ok := m[k].(map[string]interface{})
		vAssert("nested/is-map", ok)
		vAssert("nested/value", len(in) == 1 && in[k2] == v)
	case 2: // a\.b=val : escaped dot is part of the name
		k2 := ndAtom("k2", 2)
		m, err := Parse(k + "\\." + k2 + "=" + v)
		vAssert("escaped/noerr", err == nil)
		vAssert("escaped/only-key", len(m) == 1)
		vAssert("escaped/value", m[k+"."+k2] == v)
	}
}

// H04SetTyped: typed literals.
func H04SetTyped() {
	switch ndChoice("kind", 4) {
	case 0: // alphabetic value of length 4/5: bool / null only for the exact keywords (any case)
		n := ndIntRange("n", 4, 5)
		v := ndStringIn("v", n, "a-zA-Z")
		m, err := Parse("a=" + v)
		vAssert("typed/alpha-noerr", err == nil)
		low := make([]byte, n)
		for i := 0; i < n; i++ {
			low[i] = v[i] | 0x20
		}
		l := string(low)
		switch {
		case l == "true":
			vAssert("typed/true", m["a"] == true)
		case l == "false":
			vAssert("typed/false", m["a"] == false)
		case l == "null":
			got, present := m["a"]
			vAssert("typed/null", present && got == nil)
		default:
			vAssert("typed/string", m["a"] == v)
		}
	case 1: // digits: integer unless leading zero
		n := ndIntRange("n", 1, 3)
		v := ndStringIn("v", n, "0-9")
		val := int64(0)
		for i := 0; i < n; i++ {
			val = val*10 + int64(v[i]-'0')
		}
		m, err := Parse("a=" + v)
		vAssert("typed/digits-noerr", err == nil)
		if v[0] == '0' && n > 1 {
			vAssert("typed/leading-zero-is-string", m["a"] == v)
		} else {
			vAssert("typed/int", m["a"] == val)
		}
	case 2: // --set-string: always a string
		n := ndIntRange("n", 1, 4)
		v := ndStringIn("v", n, "0-9a-z")
		dest := map[string]interface{}{}
		err := ParseIntoString("a="+v, dest)
		vAssert("typed/setstring-noerr", err == nil)
		vAssert("typed/setstring", dest["a"] == v)
	case 3: // --set-json with an empty value: null
		dest := map[string]interface{}{"a": "old", "b": "keep"}
		err := ParseJSON("a=", dest)
		got, present := dest["a"]
		vAssert("typed/json-empty-noerr", err == nil)
		vAssert("typed/json-empty-null", present && got == nil)
		vAssert("typed/json-empty-frame", dest["b"] == "keep" && len(dest) == 2)
	}
}

// H04SetList: a[i]=v, a[i].b=v, a={v1,v2}, k1=v1,k2=v2
func H04SetList() {
	v := ndAtom("v", 2)
	vAssume(notKeyword(v))
	switch ndChoice("form", 4) {
	case 0: // a[i]=v
		i := ndIntRange("i", 0, 3)
		m, err := Parse(fmt.Sprintf("a[%d]=", i) + v)
		vAssert("index/noerr", err == nil)
		l, ok := m["a"].([]interface{})
		vAssert("index/is-list", ok && len(m) == 1)
		vAssert("index/len", len(l) == i+1)
		for j := 0; j < i; j++ {
			vAssert("index/holes-nil", l[j] == nil)
		}
		vAssert("index/value", l[i] == v)
	case 1: // a[i].b=v
		i := ndIntRange("i", 0, 2)
		k2 := ndAtom("k2", 2)
		m, err := Parse(fmt.Sprintf("a[%d].", i) + k2 + "=" + v)
		vAssert("indexmap/noerr", err == nil)
		l, ok := m["a"].([]interface{})
		vAssert("indexmap/is-list", ok && len(l) == i+1)
		in, ok := l[i].(map[string]interface{})
		vAssert("indexmap/is-map", ok)
		vAssert("indexmap/value", len(in) == 1 && in[k2] == v)
	case 2: // a={v1,v2}
		v2 := ndAtom("v2", 2)
		vAssume(notKeyword(v2))
		m, err := Parse("a={" + v + "," + v2 + "}")
		vAssert("braces/noerr", err == nil)
		l, ok := m["a"].([]interface{})
		vAssert("braces/is-list", ok && len(l) == 2)
		vAssert("braces/values", l[0] == v && l[1] == v2)
	case 3: // k1=v1,k2=v2 : both set; the later one wins on equal names
		k1 := ndAtom("k1", 2)
		k2 := ndAtom("k2", 2)
		v2 := ndAtom("v2", 2)
		vAssume(notKeyword(v2))
		m, err := Parse(k1 + "=" + v + "," + k2 + "=" + v2)
		vAssert("pair/noerr", err == nil)
		vAssert("pair/second", m[k2] == v2)
		if k1 == k2 {
			vAssert("pair/same-key-len", len(m) == 1)
		} else {
			vAssert("pair/first", m[k1] == v && len(m) == 2)
		}
	}
}

// H04SetLiteral: --set-literal takes everything after the first '=' verbatim.
func H04SetLiteral() {
	k := ndAtom("k", 2)
	n := ndIntRange("n", 0, 4)
	v := ndStringIn("v", n, setAlphabet)
	dest := map[string]interface{}{"zz": "keep"}
	vAssume(k != "zz")
	err := ParseLiteralInto(k+"="+v, dest)
	vAssert("literal/noerr", err == nil)
	vAssert("literal/value", dest[k] == v)
	vAssert("literal/frame", dest["zz"] == "keep" && len(dest) == 2)
}

// the alphabet of the "arbitrary input" harnesses: every byte the grammar
// treats specially plus representatives of plain name/value bytes
const setAlphabet = "-ay01=,.[]{}\\ "

func seedDest() (map[string]interface{}, map[string]interface{}, []interface{}) {
	zz := map[string]interface{}{"q": int64(1)}
	y := []interface{}{int64(1)}
	dest := map[string]interface{}{"zz": zz, "y": y, "a": "scalar"}
	return dest, zz, y
}

// H04SetFrame: arbitrary input over the grammar's alphabet (no 'z'): whatever
// it names, and whether or not parsing fails, the unrelated entry dest["zz"]
// is untouched. Also the C20 obligation: no entry point panics or loops.
func H04SetFrame() {
	n := ndIntRange("n", 0, vBound("maxlen", 4))
	s := ndStringIn("s", n, setAlphabet)
	dest, zz, _ := seedDest()
	var err error
	switch ndChoice("entry", 4) {
	case 0:
		err = ParseInto(s, dest)
	case 1:
		err = ParseIntoString(s, dest)
	case 2:
		err = ParseLiteralInto(s, dest)
	case 3:
		_, err = Parse(s)
	}
	_ = err
	got, ok := dest["zz"].(map[string]interface{})
	vAssert("frame/zz-still-map", ok)
	vAssert("frame/zz-same-content", len(got) == 1 && got["q"] == int64(1))
	vAssert("frame/zz-not-mutated", len(zz) == 1 && zz["q"] == int64(1))
}

// H20SetTypeConfusion: arbitrary input against a dest whose "a" is a scalar, a
// list or a map, and "y" a list holding a scalar: type-confusion paths of
// key/listItem (the recover wrappers must turn them into errors).
func H20SetTypeConfusion() {
	n := ndIntRange("n", 0, vBound("maxlen", 4))
	s := ndStringIn("s", n, setAlphabet)
	var a interface{}
	switch ndChoice("ashape", 4) {
	case 0:
		a = "scalar"
	case 1:
		a = []interface{}{"x", map[string]interface{}{"a": int64(1)}}
	case 2:
		a = map[string]interface{}{"a": []interface{}{int64(1)}}
	case 3:
		a = nil
	}
	dest := map[string]interface{}{"a": a, "y": []interface{}{int64(1)}}
	switch ndChoice("entry", 3) {
	case 0:
		_ = ParseInto(s, dest)
	case 1:
		_ = ParseLiteralInto(s, dest)
	case 2:
		_ = ParseIntoString(s, dest)
	}
	vAssert("c20/returned", true)
}

// H04SetNumeric: the typed-literal rule on number-like spellings: a value is
// turned into an integer only when it is an optionally signed plain decimal
// without a leading zero digit (or exactly "0"), and then it is that decimal
// number; every other spelling (underscores, base prefixes, leading zeros)
// stays the string that was given.
func H04SetNumeric() {
	n := ndIntRange("n", 1, vBound("numlen", 4))
	v := ndStringIn("v", n, "0-9+_xb-")
	m, err := Parse("a=" + v)
	vAssert("numeric/noerr", err == nil)
	// reference reading: [+-]? digits
	i := 0
	neg := false
	if v[0] == '+' || v[0] == '-' {
		neg = v[0] == '-'
		i = 1
	}
	plain := i < n
	val := int64(0)
	for j := i; j < n; j++ {
		if v[j] < '0' || v[j] > '9' {
			plain = false
			break
		}
		val = val*10 + int64(v[j]-'0')
	}
	if neg {
		val = -val
	}
	switch got := m["a"].(type) {
	case int64:
		vAssert("numeric/int-only-for-plain-decimal", plain)
		vAssert("numeric/int-is-the-decimal-reading", got == val)
		vAssert("numeric/no-leading-zero-digit-int", v[0] != '0' || n == 1)
	case string:
		vAssert("numeric/string-is-verbatim", got == v)
		vAssert("numeric/plain-decimal-without-leading-zero-is-int", !(plain && v[0] != '0'))
	default:
		vFail("numeric/unexpected-type")
	}
}

// H04SetEscapes: a backslash makes the next rune literal — including another
// backslash — and has no effect beyond that rune.
func H04SetEscapes() {
	v := ndAtom("v", 2)
	w := ndAtom("w", 2)
	vAssume(notKeyword(v) && notKeyword(w))
	switch ndChoice("form", 5) {
	case 0: // escaped backslash right before a pair separator
		m, err := Parse("a=" + v + "\\\\,b=" + w)
		vAssert("escape/bs-before-comma-noerr", err == nil)
		vAssert("escape/bs-before-comma-first", m["a"] == v+"\\")
		vAssert("escape/bs-before-comma-second", m["b"] == w && len(m) == 2)
	case 1: // escaped backslash right before a name separator
		m, err := Parse("a\\\\.b=" + v)
		vAssert("escape/bs-before-dot-noerr", err == nil)
		in, ok := m["a\\"].(map[string]interface{})
		vAssert("escape/bs-before-dot-nests", ok && len(m) == 1 && in["b"] == v)
	case 2: // escaped backslash before a list separator
		m, err := Parse("l={" + v + "\\\\," + w + "}")
		vAssert("escape/bs-in-list-noerr", err == nil)
		l, ok := m["l"].([]interface{})
		vAssert("escape/bs-in-list-two-items", ok && len(l) == 2 && l[0] == v+"\\" && l[1] == w)
	case 3: // escaped comma stays in the value, the next pair is still parsed
		m, err := Parse("a=" + v + "\\," + w + ",b=" + w)
		vAssert("escape/comma-noerr", err == nil)
		vAssert("escape/comma-kept", m["a"] == v+","+w && m["b"] == w)
	case 4: // escaped '=' and '[' in a name
		m, err := Parse("a\\=" + v + "\\[=" + w)
		vAssert("escape/name-noerr", err == nil)
		vAssert("escape/name", m["a="+v+"["] == w && len(m) == 1)
	}
}

// H20SetDeep: arbitrary suffixes after the prefixes that reach the nested list /
// nested map code ("a[0]", "a[0][0]", "a.b", "y[0]."), against destinations of
// every shape: the recover wrappers must turn every type confusion into an error.
func H20SetDeep() {
	prefix := []string{"a[0]", "a[0][0]", "a[1][0]", "a.a", "y[0].", "a[0].a"}[ndChoice("prefix", 6)]
	n := ndIntRange("n", 0, vBound("deeplen", 4))
	s := prefix + ndStringIn("s", n, setAlphabet)
	var a interface{}
	switch ndChoice("ashape", 5) {
	case 0:
		a = "scalar"
	case 1:
		a = []interface{}{"x", map[string]interface{}{"a": int64(1)}}
	case 2:
		a = map[string]interface{}{"a": []interface{}{int64(1)}}
	case 3:
		a = nil
	case 4:
		a = []interface{}{[]interface{}{"deep"}, "x"}
	}
	dest := map[string]interface{}{"a": a, "y": []interface{}{int64(1)}}
	switch ndChoice("entry", 3) {
	case 0:
		_ = ParseInto(s, dest)
	case 1:
		_ = ParseLiteralInto(s, dest)
	case 2:
		_ = ParseIntoString(s, dest)
	}
	vAssert("c20/deep-returned", true)
}
