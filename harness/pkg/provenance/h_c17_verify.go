package provenance

// C17 — the accept/reject decision structure of provenance verification:
// Verify succeeds iff both files exist, the signature block decodes, the
// signature verifies against the keyring, the message parses, and the message
// lists, under the archive's BASE NAME, exactly "sha256:"+digest of the archive.
// The cryptography (clearsign decoding, OpenPGP verification, SHA-256) is cut
// (class S) to symbolic outcomes / symbolic digest tokens — what a solver cannot
// decide is collision resistance and unforgeability, not this structure. The
// native replay builds real files, signs them with the repository's test key
// and tampers with them according to the model.

import (
	"bytes"
	"crypto/sha256"
	"encoding/hex"
	"errors"
	"io/fs"
	"os"
	"path/filepath"
	"time"

	"golang.org/x/crypto/openpgp"           //nolint
	"golang.org/x/crypto/openpgp/clearsign" //nolint

	hapi "helm.sh/helm/v4/pkg/chart/v2"
)

//verif:stub os.Stat -> stubStat
//verif:stub (*helm.sh/helm/v4/pkg/provenance.Signatory).decodeSignature -> stubDecodeSignature
//verif:stub (*helm.sh/helm/v4/pkg/provenance.Signatory).verifySignature -> stubVerifySignature
//verif:stub helm.sh/helm/v4/pkg/provenance.DigestFile -> stubDigestFile
//verif:stub helm.sh/helm/v4/pkg/provenance.parseMessageBlock -> stubParseMessageBlock

type fakeInfo struct{ name string }

func (f fakeInfo) Name() string       { return f.name }
func (f fakeInfo) Size() int64        { return 1 }
func (f fakeInfo) Mode() fs.FileMode  { return 0o644 }
func (f fakeInfo) ModTime() time.Time { return time.Time{} }
func (f fakeInfo) IsDir() bool        { return false }
func (f fakeInfo) Sys() interface{}   { return nil }

var (
	h17Exists    map[string]bool
	h17DecodeOK  bool
	h17SigValid  bool
	h17ParseOK   bool
	h17Digest    string
	h17Entries   map[string]string
)

func stubStat(name string) (fs.FileInfo, error) {
	if h17Exists[name] {
		return fakeInfo{name}, nil
	}
	return nil, &fs.PathError{Op: "stat", Path: name, Err: fs.ErrNotExist}
}

func stubDecodeSignature(s *Signatory, filename string) (*clearsign.Block, error) {
	if !h17DecodeOK {
		return nil, errors.New("signature block not found")
	}
	return &clearsign.Block{Plaintext: []byte("message")}, nil
}

func stubVerifySignature(s *Signatory, block *clearsign.Block) (*openpgp.Entity, error) {
	if !h17SigValid {
		return nil, errors.New("openpgp: invalid signature")
	}
	return &openpgp.Entity{}, nil
}

func stubDigestFile(filename string) (string, error) { return h17Digest, nil }

func stubParseMessageBlock(data []byte) (*hapi.Metadata, *SumCollection, error) {
	if !h17ParseOK {
		return nil, nil, errors.New("message block must have at least two parts")
	}
	return &hapi.Metadata{Name: "x"}, &SumCollection{Files: h17Entries}, nil
}

func realDigest(content string) string {
	s := sha256.Sum256([]byte(content))
	return hex.EncodeToString(s[:])
}

func H17Verify() {
	base := ndStringIn("base", ndIntRange("base.len", 1, 2), "abA") // names differing only in letter case are different files
	digest := ndStringIn("digest", 2, "01")
	existsChart, existsSig := ndBool("existsChart"), ndBool("existsSig")
	decodeOK, sigValid, parseOK := ndBool("decodeOK"), ndBool("sigValid"), ndBool("parseOK")
	n := ndIntRange("entries", 0, vBound("entries", 2))
	entries := map[string]string{}
	type ent struct{ name, tok string }
	var ents []ent
	// what the signed message lists is attacker-chosen text: the right algorithm
	// marker, another one, a differently spelled one, or none
	markers := []string{"sha256:", "sha512:", "SHA256:", "md5:", ""}
	for k := 0; k < n; k++ {
		e := ent{ndStringIn("entry.name", ndIntRange("entry.len", 1, 2), "abA"), ndStringIn("entry.digest", 2, "01")}
		ents = append(ents, e)
		entries[e.name] = markers[ndChoice("entry.marker", len(markers))] + e.tok // later entries with the same name replace earlier ones (YAML map)
	}
	var ver *Verification
	var err error
	dir := "/prov"
	if !ndNative() {
		chartpath := dir + "/" + base
		h17Exists = map[string]bool{chartpath: existsChart, chartpath + ".prov": existsSig}
		h17DecodeOK, h17SigValid, h17ParseOK, h17Digest, h17Entries = decodeOK, sigValid, parseOK, digest, entries
		s := &Signatory{}
		ver, err = s.Verify(chartpath, chartpath+".prov")
	} else {
		ver, err = nativeVerify(base, digest, existsChart, existsSig, decodeOK, sigValid, parseOK, entries)
	}
	listed, ok := entries[base]
	want := existsChart && existsSig && decodeOK && sigValid && parseOK && ok && listed == "sha256:"+digest
	vAssert("verify/accepts-exactly-untampered-signed", (err == nil) == want)
	if err == nil {
		vAssert("verify/reports-file-name", ver.FileName == base)
		if !ndNative() {
			vAssert("verify/reports-file-hash", ver.FileHash == "sha256:"+digest)
		}
	}
	vObservef("ok=%v", err == nil)
}

// nativeVerify: real files, real signature with the repository's test key, then
// the tampering the model asks for.
func nativeVerify(base, digest string, existsChart, existsSig, decodeOK, sigValid, parseOK bool, entries map[string]string) (*Verification, error) {
	d, derr := os.MkdirTemp("", "verif-prov")
	if derr != nil {
		panic(derr)
	}
	defer os.RemoveAll(d)
	chartpath := filepath.Join(d, base)
	content := "archive-" + digest
	if existsChart {
		os.WriteFile(chartpath, []byte(content), 0o644)
	}
	signer, serr := NewFromFiles("testdata/helm-test-key.secret", "testdata/helm-test-key.pub")
	if serr != nil {
		panic(serr)
	}
	msg := "name: x\nversion: 1.0.0\n"
	if parseOK {
		msg += "\n...\nfiles:\n"
		for name, tok := range entries {
			cut := len(tok) - 2 // marker, then the two-character digest token
			dg := realDigest("archive-" + tok[cut:])
			msg += "  " + name + ": \"" + tok[:cut] + dg + "\"\n"
		}
		if len(entries) == 0 {
			msg += "  {}\n"
		}
	}
	out := bytes.NewBuffer(nil)
	w, werr := clearsign.Encode(out, signer.Entity.PrivateKey, &defaultPGPConfig)
	if werr != nil {
		panic(werr)
	}
	w.Write([]byte(msg))
	w.Close()
	prov := out.String()
	if !sigValid {
		prov = bytes.NewBufferString(prov).String()
		// tamper with the signed text
		prov = replaceFirst(prov, "version: 1.0.0", "version: 1.0.1")
	}
	if !decodeOK {
		prov = "this is not a signature block\n"
	}
	if existsSig {
		os.WriteFile(chartpath+".prov", []byte(prov), 0o644)
	}
	return signer.Verify(chartpath, chartpath+".prov")
}

func replaceFirst(s, old, nu string) string {
	i := bytes.Index([]byte(s), []byte(old))
	if i < 0 {
		return s
	}
	return s[:i] + nu + s[i+len(old):]
}
