package ignore

// C15 (.helmignore clause) — "files excluded by .helmignore never appear in a
// packaged archive" rests on Rules.Ignore deciding exactly what the documented
// rule syntax says. Differential harness: one symbolic rule line and one
// symbolic file path through the real parseRule / Rules.Ignore / filepath.Match,
// against a short reference model of the documented semantics (comment only
// when '#' starts the line; '!' negates; trailing '/' = directories only;
// leading '/' = anchored at the chart root; a pattern with '/' matches the
// whole path, one without matches the base name; '*' and '?' do not cross '/').
// H15IgnoreFile runs the real Parse (scanner, BOM trim) on two lines.

import (
	"io/fs"
	"strings"
	"time"
)

type ignInfo struct {
	name string
	dir  bool
}

func (i ignInfo) Name() string       { return i.name }
func (i ignInfo) Size() int64        { return 0 }
func (i ignInfo) Mode() fs.FileMode  { return 0o644 }
func (i ignInfo) ModTime() time.Time { return time.Time{} }
func (i ignInfo) IsDir() bool        { return i.dir }
func (i ignInfo) Sys() any           { return nil }

// refGlob: '*' any run of non-'/' bytes, '?' one non-'/' byte, everything else literal
func refGlob(p, s string) bool {
	if p == "" {
		return s == ""
	}
	switch p[0] {
	case '*':
		for k := 0; k <= len(s); k++ {
			if refGlob(p[1:], s[k:]) {
				return true
			}
			if k < len(s) && s[k] == '/' {
				break
			}
		}
		return false
	case '?':
		return s != "" && s[0] != '/' && refGlob(p[1:], s[1:])
	}
	return s != "" && s[0] == p[0] && refGlob(p[1:], s[1:])
}

func refBase(p string) string {
	if i := strings.LastIndexByte(p, '/'); i >= 0 {
		return p[i+1:]
	}
	return p
}

// refIgnore: the documented meaning of ONE rule line for path p
func refIgnore(line, p string, isDir bool) bool {
	rule := strings.TrimSpace(line)
	if rule == "" || rule[0] == '#' {
		return false
	}
	negate := false
	if rule[0] == '!' {
		negate, rule = true, rule[1:]
	}
	mustDir := false
	if strings.HasSuffix(rule, "/") {
		mustDir, rule = true, rule[:len(rule)-1]
	}
	if mustDir && !isDir {
		return negate
	}
	var m bool
	switch {
	case strings.HasPrefix(rule, "/"):
		m = refGlob(rule[1:], p)
	case strings.Contains(rule, "/"):
		m = refGlob(rule, p)
	default:
		m = refGlob(rule, refBase(p))
	}
	if negate {
		return !m
	}
	return m
}

func ndPath(name string) string {
	n := ndIntRange(name+".len", 1, vBound("pathlen", 3))
	p := ndStringIn(name, n, "ab#/")
	vAssume(p[0] != '/')
	vAssume(p[len(p)-1] != '/')
	vAssume(!strings.Contains(p, "//"))
	return p
}

func H15Ignore() {
	n := ndIntRange("line.len", 1, vBound("linelen", 3))
	line := ndStringIn("line", n, "ab*#!/")
	vAssume(!strings.Contains(line, "**")) // refused by the parser (documented)
	p := ndPath("path")
	isDir := ndBool("isDir")
	r := &Rules{}
	err := r.parseRule(line)
	vAssert("ignore/single-star-and-literals-always-parse", err == nil)
	got := r.Ignore(p, ignInfo{refBase(p), isDir})
	vAssert("ignore/decision-matches-documented-rule-syntax", got == refIgnore(line, p, isDir))
	vObservef("%q on %q dir=%v -> %v", line, p, isDir, got)
}

func H15IgnoreFile() {
	l1 := ndStringIn("l1", ndIntRange("l1.len", 0, 2), "a#!")
	l2 := ndStringIn("l2", ndIntRange("l2.len", 0, 2), "ab#")
	bom := ndBool("bom")
	crlf := ndBool("crlf")
	sep := "\n"
	if crlf {
		sep = "\r\n"
	}
	text := l1 + sep + l2 + sep
	if bom {
		text = "\xEF\xBB\xBF" + text
	}
	r, err := Parse(strings.NewReader(text))
	vAssert("ignorefile/parses", err == nil && r != nil)
	p := ndPath("path")
	// rules are evaluated in order; the first decisive one wins
	want := false
	for _, l := range []string{l1, l2} {
		t := strings.TrimSpace(l)
		if t == "" || t[0] == '#' {
			continue
		}
		if refIgnore(l, p, false) {
			want = true
			break
		}
		if t[0] == '!' {
			continue
		}
	}
	vAssert("ignorefile/lines-comments-bom-crlf", r.Ignore(p, ignInfo{refBase(p), false}) == want)
}
