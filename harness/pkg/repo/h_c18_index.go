package repo

// C18 — a loaded index holds only valid entries sorted newest first, and
// version queries return the best match. Runs the real loadIndex, ChartVersion
// validation, SortEntries, ChartVersions.Less, IndexFile.Get and the semver
// library's own Compare/LessThan/comparePrerelease on symbolic version numbers.
// Cuts (class S): jsonOrYamlUnmarshal -> the harness-built IndexFile (native
// replay serialises it to JSON and uses the real decoder); semver.NewVersion ->
// a parser for the restricted grammar D.D.D[-rcN] used by the harness (symbolic
// digit bytes become symbolic major/minor/patch); semver.NewConstraint /
// Constraints.Check -> the three query forms the harness uses.

import (
	"errors"
	"fmt"
	"strings"

	"github.com/Masterminds/semver/v3"

	chart "helm.sh/helm/v4/pkg/chart/v2"
)

//verif:stub helm.sh/helm/v4/pkg/repo.jsonOrYamlUnmarshal -> stubIndexUnmarshal
//verif:stub github.com/Masterminds/semver/v3.NewVersion -> stubNewVersion
//verif:stub github.com/Masterminds/semver/v3.StrictNewVersion -> stubStrictNewVersion
//verif:stub github.com/Masterminds/semver/v3.NewConstraint -> stubNewConstraint
//verif:stub (github.com/Masterminds/semver/v3.Constraints).Check -> stubConstraintCheck

var stubIndex *IndexFile

func stubIndexUnmarshal(b []byte, i interface{}) error {
	*(i.(*IndexFile)) = *stubIndex
	return nil
}

var _ = semver.StrictNewVersion

// the lenient parser also takes the two loose spellings index files do contain:
// a leading "v" (vD.D.D) and a missing patch number (D.D = D.D.0)
func stubNewVersion(s string) (*semver.Version, error) {
	if len(s) == 6 && s[0] == 'v' {
		return stubStrictNewVersion(s[1:])
	}
	if len(s) == 3 {
		return stubStrictNewVersion(s + ".0")
	}
	return stubStrictNewVersion(s)
}

// D.D.D, D.D.D-rcN or D.D.D+bN (N a digit); anything else is not a version.
func stubStrictNewVersion(s string) (*semver.Version, error) {
	if len(s) != 5 && len(s) != 9 && len(s) != 8 {
		return nil, errors.New("Invalid Semantic Version")
	}
	if s[1] != '.' || s[3] != '.' {
		return nil, errors.New("Invalid Semantic Version")
	}
	for _, k := range []int{0, 2, 4} {
		if s[k] < '0' || s[k] > '9' {
			return nil, errors.New("Invalid Semantic Version")
		}
	}
	pre, meta := "", ""
	if len(s) == 8 { // D.D.D+bN : build metadata, ignored by precedence
		if s[5:7] != "+b" || s[7] < '0' || s[7] > '9' {
			return nil, errors.New("Invalid Semantic Version")
		}
		meta = s[6:]
	}
	if len(s) == 9 {
		if s[5:8] != "-rc" || s[8] < '0' || s[8] > '9' {
			return nil, errors.New("Invalid Semantic Version")
		}
		pre = s[6:]
	}
	return semver.New(uint64(s[0]-'0'), uint64(s[2]-'0'), uint64(s[4]-'0'), pre, meta), nil
}

// the constraint of the query in flight: "" = "*", "=X" handled by Get's exact
// match, ">=D.D.D" = at least that release; constraints without a prerelease
// part never match prerelease versions (library rule)
var stubConstraintMin *semver.Version

func stubNewConstraint(c string) (*semver.Constraints, error) {
	stubConstraintMin, stubConstraintStrict, stubConstraintExact = nil, false, false
	switch {
	case c == "*":
		return &semver.Constraints{}, nil
	case strings.HasPrefix(c, ">="):
		v, err := stubNewVersion(c[2:])
		if err != nil {
			return nil, err
		}
		stubConstraintMin = v
		return &semver.Constraints{}, nil
	case strings.HasPrefix(c, ">"): // strictly greater (not used by helm itself; here so that a change to this form is judged on its meaning)
		v, err := stubNewVersion(c[1:])
		if err != nil {
			return nil, err
		}
		stubConstraintMin, stubConstraintStrict = v, true
		return &semver.Constraints{}, nil
	default:
		// an exact version used as a constraint: "=V"
		v, err := stubNewVersion(c)
		if err != nil {
			return nil, fmt.Errorf("improper constraint: %s", c)
		}
		stubConstraintMin = v
		stubConstraintExact = true
		return &semver.Constraints{}, nil
	}
}

var stubConstraintExact, stubConstraintStrict bool

func stubConstraintCheck(cs semver.Constraints, v *semver.Version) bool {
	if stubConstraintExact {
		return v.Equal(stubConstraintMin)
	}
	if v.Prerelease() != "" {
		return false
	}
	if stubConstraintMin == nil {
		return true
	}
	if stubConstraintStrict {
		return v.GreaterThan(stubConstraintMin)
	}
	return !v.LessThan(stubConstraintMin)
}

type entrySpec struct {
	shape   int // 0 valid, 1 nil entry, 2 nil metadata, 3 invalid version string, 4 valid prerelease, 5 valid with build metadata, 6 valid with a leading v, 7 valid without patch number
	version string
}

func ndVersionMeta(name string) string {
	return ndVersion(name, false) + "+b" + string(rune('1'+ndChoice(name+".meta", 2)))
}

func ndVersion(name string, pre bool) string {
	s := ndStringIn(name, 5, "0-"+string(rune('0'+vBound("maxdigit", 3))))
	vAssume(s[1] == s[1]) // keep s symbolic; dots are fixed below
	b := []byte(s)
	v := string(b[0:1]) + "." + string(b[2:3]) + "." + string(b[4:5])
	if pre {
		v += "-rc" + string(rune('1'+ndChoice(name+".rc", 2)))
	}
	return v
}

func buildIndex(es []entrySpec) *IndexFile {
	idx := &IndexFile{APIVersion: "v1", Entries: map[string]ChartVersions{}}
	var cvs ChartVersions
	for _, e := range es {
		switch e.shape {
		case 1:
			cvs = append(cvs, nil)
		case 2:
			cvs = append(cvs, &ChartVersion{URLs: []string{"u"}})
		default:
			cvs = append(cvs, &ChartVersion{Metadata: &chart.Metadata{Name: "c", Version: e.version, APIVersion: "v1"}, URLs: []string{"u"}})
		}
	}
	idx.Entries["c"] = cvs
	return idx
}

func indexJSON(es []entrySpec) []byte {
	var parts []string
	for _, e := range es {
		switch e.shape {
		case 1:
			parts = append(parts, "null")
		case 2:
			parts = append(parts, `{"urls":["u"]}`)
		default:
			parts = append(parts, fmt.Sprintf(`{"name":"c","version":%q,"apiVersion":"v1","urls":["u"]}`, e.version))
		}
	}
	return []byte(`{"apiVersion":"v1","entries":{"c":[` + strings.Join(parts, ",") + `]}}`)
}

func H18Index() {
	stubConstraintExact, stubConstraintMin = false, nil
	n := ndIntRange("entries", 1, vBound("entries", 3))
	es := make([]entrySpec, n)
	for k := range es {
		sh := ndChoice("shape", vBound("shapes", 5))
		es[k].shape = sh
		switch sh {
		case 0:
			es[k].version = ndVersion("ver", false)
		case 4:
			es[k].version = ndVersion("ver", true)
		case 5:
			es[k].version = ndVersionMeta("ver")
		case 3:
			es[k].version = "bogus"
		case 6:
			es[k].version = "v" + ndVersion("ver", false)
		case 7:
			es[k].version = ndVersion("ver", false)[:3]
		}
	}
	stubIndex = buildIndex(es)
	data := []byte("x")
	if ndNative() {
		data = indexJSON(es)
	}
	idx, err := loadIndex(data, "harness")
	vAssert("load/noerr", err == nil)
	cvs := idx.Entries["c"]
	nvalid := 0
	for _, e := range es {
		if e.shape == 0 || e.shape >= 4 {
			nvalid++
		}
	}
	// only valid entries remain
	vAssert("load/only-valid-count", len(cvs) == nvalid)
	for _, cv := range cvs {
		vAssert("load/no-nil-entry", cv != nil && cv.Metadata != nil)
		_, perr := semver.NewVersion(cv.Version)
		vAssert("load/no-invalid-version", perr == nil)
	}
	// sorted newest first
	for k := 0; k+1 < len(cvs); k++ {
		a, _ := semver.NewVersion(cvs[k].Version)
		b, _ := semver.NewVersion(cvs[k+1].Version)
		vAssert("load/sorted-descending", a.Compare(b) >= 0)
	}
	// queries
	switch ndChoice("query", 3) {
	case 0: // empty version: highest stable
		got, gerr := idx.Get("c", "")
		var best *semver.Version
		for _, cv := range cvs {
			v, _ := semver.NewVersion(cv.Version)
			if v.Prerelease() == "" && (best == nil || v.GreaterThan(best)) {
				best = v
			}
		}
		if best == nil {
			vAssert("get-latest/none-is-error", gerr != nil)
		} else {
			vAssert("get-latest/found", gerr == nil && got != nil)
			gv, _ := semver.NewVersion(got.Version)
			vAssert("get-latest/highest-stable", gv.Prerelease() == "" && gv.Compare(best) == 0)
		}
	case 1: // exact version string (stable or prerelease)
		var q string
		switch ndChoice("qform", 3) {
		case 0:
			q = ndVersion("q", false)
		case 1:
			q = ndVersion("q", true)
		case 2:
			q = ndVersionMeta("q")
		}
		got, gerr := idx.Get("c", q)
		exact := false
		for _, cv := range cvs {
			if cv.Version == q {
				exact = true
			}
		}
		if exact {
			vAssert("get-exact/identical-string", gerr == nil && got.Version == q)
		} else if gerr == nil {
			// no identical string: what is returned must at least be the same version (build metadata aside)
			qv, _ := semver.NewVersion(q)
			gv, _ := semver.NewVersion(got.Version)
			vAssert("get-exact/fallback-is-same-version", gv.Equal(qv))
		}
	case 2: // range constraint: highest satisfying
		q := ndVersion("q", false)
		got, gerr := idx.Get("c", ">="+q)
		qv, _ := semver.NewVersion(q)
		var best *semver.Version
		for _, cv := range cvs {
			v, _ := semver.NewVersion(cv.Version)
			if v.Prerelease() == "" && !v.LessThan(qv) && (best == nil || v.GreaterThan(best)) {
				best = v
			}
		}
		if best == nil {
			vAssert("get-range/none-is-error", gerr != nil)
		} else {
			vAssert("get-range/found", gerr == nil && got != nil)
			gv, _ := semver.NewVersion(got.Version)
			vAssert("get-range/highest-satisfying", gv.Compare(best) == 0 && gv.Prerelease() == "")
		}
	}
	vObservef("entries=%d kept=%d", n, len(cvs))
}
